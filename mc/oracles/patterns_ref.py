"""Denotational reference for value patterns (property C13).

Written from the SuperCollider pattern documentation (Pseq, Pser, Pn, Pfin,
Pdrop, Pstutter, Pclump, Pflatten, Pdiff, Pconst, Pswitch, Pswitch1, Place,
Ptuple, Pslide, Pseries, Pgeom, Pcollect/Pselect/Preject, Pif, Pwrap, Pseed,
Pwhite, Prand, Pshuf, Punop/Pbinop/Pnaryop) and from the comments/docstrings of
the Python library where it deliberately differs (argument order; Plen == Pfin;
Pif has no default and ends with the first exhausted stream that is pulled).
Never imports sc3.

A pattern expression is plain JSON data:

    number                                   a leaf (int / bool)
    "inf"                                    infinity (repeats / length)
    [x, y, ...]   (first element no str)     a plain list (items, Place sublist)
    ["Pseq", items, repeats, offset]         ["Pser", items, repeats, offset]
    ["Pn", p, repeats]   ["Plen", p, n]      ["Pdrop", p, n]
    ["Pstutter", p, n]   ["Pclump", p, n]    ["Pflatten", p, n]
    ["Pdiff", p]         ["Pconst", p, sum]
    ["Pswitch", items, which]                ["Pswitch1", items, which]
    ["Place", items, repeats, offset]        ["Ptuple", items, repeats]
    ["Pslide", items, length, step, start, wrap, repeats]
    ["Pseries", start, step, length]         ["Pgeom", start, grow, length]
    ["Pcollect", fname, p] ["Pselect", fname, p] ["Preject", fname, p]
    ["Pif", cond, iftrue, iffalse]           ["Pwrap", p, lo, hi]
    ["Pseed", seed, p]   ["Pwhite", lo, hi, length]
    ["Prand", items, repeats]                ["Pshuffle", items, repeats]
    ["unop", name, a]    ["binop", name, a, b]   ["narop", name, a, x, y]

Trailing arguments may be omitted (["Pseq", items], ["Pslide", items, 2],
["Pseries"] ...): the documented default of the constructor applies (repeats
1, offset 0, Pn repeats inf, Pswitch index 0, Pslide length 3 / step 1 / start
0 / wrap / 1 repeat, Pseries 0.0 / 1.0 / inf, Pgeom 1.0 / 1.0 / inf, Pwhite
length inf).  unop names: neg abs pos invert; binop names: add sub mul div
floordiv mod pow lt le gt ge eq ne min max (the Python operators; mod only
for a positive modulus); narop: clip.

The meaning of an expression is a lazy generator of values.  Two protocols,
as in the documentation: *embedding* (a number embeds as itself once, a
pattern embeds its whole sequence) and *streaming* (a number is the constant
infinite stream, a pattern is a fresh run of its sequence).

Three escape hatches keep the oracle from demanding more than is documented:

* `DontCare` - raised where neither the SuperCollider documentation nor this
  library's docstrings decide the continuation (listed at each raise).
* `Diverge`  - the denotation has no next item *and* no end (an endless loop
  that yields nothing, e.g. Pn(empty, inf)); nothing is demanded from there.
* random patterns denote `Rnd(candidates)`: any value of a finite candidate
  set (a superset of what the documentation allows is used when in doubt).
"""

INF = float('inf')


class DontCare(Exception):
    pass


class Diverge(Exception):
    pass


class Rnd:
    """Some value out of `cands` (a frozenset of numbers).  `tag` is
    ('perm', group id, block position, sorted items) on the direct output of
    Pshuffle and None after any transformation."""
    __slots__ = ('cands', 'tag')

    def __init__(self, cands, tag=None):
        self.cands = frozenset(cands)
        self.tag = tag
        if len(self.cands) > 4096:
            raise DontCare('candidate set too large')

    def __repr__(self):
        return 'Rnd(%s)' % sorted(self.cands)


class Env:
    def __init__(self, fuel=1000):
        self.limit = fuel
        self.fuel = fuel
        self.gid = 0

    def tick(self):
        self.fuel -= 1
        if self.fuel < 0:
            raise Diverge()

    def refill(self):
        self.fuel = self.limit


FUNCS = {
    'add10': lambda x: x + 10,
    'double': lambda x: x * 2,
    'even': lambda x: x % 2 == 0,
    'gt1': lambda x: x > 1,
}

def _int_only(f):
    def g(*a):
        if not all(isinstance(i, int) and not isinstance(i, bool) for i in a):
            raise DontCare('bitwise operator on a non-integer')
        return f(*a)
    return g


def _mod(a, b):
    # the library's % is sclang's mod, which is the floored modulo (Python's
    # %) for a positive modulus; other moduli are not decided here.
    if not b > 0:
        raise DontCare('modulo by a non-positive number')
    return a % b


def _pow(a, b):
    if b < 0 or abs(a) > 64 or b > 16:
        raise DontCare('power outside the small non-negative range')
    return a ** b


UNOPS = {'neg': lambda a: -a, 'abs': lambda a: abs(a), 'pos': lambda a: +a,
         'invert': _int_only(lambda a: ~a)}
BINOPS = {
    'add': lambda a, b: a + b, 'sub': lambda a, b: a - b,
    'mul': lambda a, b: a * b, 'lt': lambda a, b: a < b,
    'le': lambda a, b: a <= b, 'gt': lambda a, b: a > b,
    'ge': lambda a, b: a >= b, 'eq': lambda a, b: a == b,
    'ne': lambda a, b: a != b,
    'div': lambda a, b: a / b, 'floordiv': lambda a, b: a // b,
    'mod': _mod, 'pow': _pow,
    'min': lambda a, b: min(a, b), 'max': lambda a, b: max(a, b),
}
def _clip(a, lo, hi):
    # The library casts the bounds to the type of the clipped value (as the
    # C++ template of sclang does): an integer (or boolean) value with
    # non-integer bounds is a matter of the numeric kernel, not of patterns.
    if isinstance(a, bool) or (isinstance(a, int) and not (
            isinstance(lo, int) and isinstance(hi, int))):
        raise DontCare('clip of an integer/boolean by non-integer bounds')
    return max(min(a, hi), lo)


NAROPS = {'clip': _clip}


def is_num(v):
    return isinstance(v, (int, float))      # bool included


def is_node(x):
    return isinstance(x, list) and len(x) > 0 and isinstance(x[0], str)


def num(x):
    return INF if x == 'inf' else x


def count(n):
    """0, 1, ... n-1 (n may be inf)."""
    n = num(n)
    if not (n == INF or (isinstance(n, int) and not isinstance(n, bool))):
        raise DontCare('repeats/length is neither an integer nor inf')
    i = 0
    while i < n:
        yield i
        i += 1


def lift(f, *vals):
    """Apply a numeric kernel to exact values or candidate sets."""
    for v in vals:
        if not (is_num(v) or isinstance(v, Rnd)):
            raise DontCare('operator on a non-number (list/tuple value)')
    if not any(isinstance(v, Rnd) for v in vals):
        try:
            return f(*vals)
        except ArithmeticError:
            raise DontCare('arithmetic error (division by zero, overflow)')
    sets = [sorted(v.cands) if isinstance(v, Rnd) else [v] for v in vals]
    n = 1
    for s in sets:
        n *= len(s)
    if n > 4096:
        raise DontCare('candidate product too large')
    out = set()

    def rec(i, acc):
        if i == len(sets):
            try:
                out.add(f(*acc))
            except ArithmeticError:
                raise DontCare('arithmetic error on a candidate value')
            return
        for x in sets[i]:
            rec(i + 1, acc + [x])
    rec(0, [])
    if len(out) == 1:
        return next(iter(out))
    return Rnd(out)


def exact_int(v, what):
    if isinstance(v, Rnd):
        raise DontCare(what + ' is random: structure is not determined')
    if not isinstance(v, int) or isinstance(v, bool):
        raise DontCare(what + ' is not an integer')
    return v


def pull(gen):
    """next item of a generator or the _END marker."""
    try:
        return next(gen)
    except StopIteration:
        return _END


class _End:
    def __repr__(self):
        return 'END'


_END = _End()


def stream(x, env):
    """asStream: a number is a constant infinite stream, a plain list is the
    constant stream of that list, a pattern is a fresh run of it."""
    if is_node(x):
        return embed(x, env)
    return _const(x, env)


def _const(x, env):
    while True:
        env.tick()
        yield x


def embed(x, env):
    """embedInStream: a number embeds once, a pattern embeds its sequence."""
    if not is_node(x):
        if isinstance(x, list):
            # an array item embeds as itself (a chord); lists vs tuples and
            # copying are not decided anywhere -> the value is compared
            # structurally only.
            yield list(x)
        else:
            yield x
        return
    head = x[0]
    f = _SEM.get(head)
    if f is None:
        raise ValueError('unknown pattern ' + repr(head))
    yield from f(env, *x[1:])


def _items(lst):
    if not isinstance(lst, list) or is_node(lst) or len(lst) == 0:
        raise DontCare('list pattern needs a non empty plain list')
    return lst


def _offset(offset, size):
    # Documentation: "offset into the list".  Offsets outside 0..size-1 are
    # not decided (sclang wraps, Python slicing does not).
    if not isinstance(offset, int) or isinstance(offset, bool) \
            or not 0 <= offset < size:
        raise DontCare('offset outside the list')
    return offset


# --- list patterns ---------------------------------------------------------

def p_seq(env, lst, repeats=1, offset=0):
    lst = _items(lst)
    size = len(lst)
    offset = _offset(offset, size)
    for _ in count(repeats):
        env.tick()
        for i in range(size):
            yield from embed(lst[(i + offset) % size], env)


def p_ser(env, lst, repeats=1, offset=0):
    lst = _items(lst)
    size = len(lst)
    offset = _offset(offset, size)
    for i in count(repeats):
        env.tick()
        yield from embed(lst[(i + offset) % size], env)


def p_switch(env, lst, which=0):
    lst = _items(lst)
    ws = stream(which, env)
    while True:
        env.tick()
        i = pull(ws)
        if i is _END:
            return
        # the index wraps around the list (sclang: list.wrapAt(index); this
        # library: lst[index % size]); negative indices count from the end.
        # Non-integer indices are not decided.
        i = exact_int(i, 'Pswitch index') % len(lst)
        yield from embed(lst[i], env)


def p_switch1(env, lst, which=0):
    lst = _items(lst)
    streams = [stream(i, env) for i in lst]
    ws = stream(which, env)
    while True:
        env.tick()
        i = pull(ws)
        if i is _END:
            return
        # one stream per list item, made once per embedding; every index
        # congruent to the item's position continues that same stream.
        i = exact_int(i, 'Pswitch1 index') % len(lst)
        v = pull(streams[i])
        if v is _END:
            return
        yield v


def p_tuple(env, lst, repeats=1):
    lst = _items(lst)
    for _ in count(repeats):
        env.tick()
        streams = [stream(i, env) for i in lst]
        while True:
            env.tick()
            vals = []
            ended = False
            for s in streams:
                v = pull(s)
                if v is _END:
                    ended = True
                    break
                vals.append(v)
            if ended:
                break
            yield tuple(vals)


def p_lace(env, lst, repeats=1, offset=0):
    lst = _items(lst)
    size = len(lst)
    offset = _offset(offset, size)
    for j in count(repeats):
        env.tick()
        for i in range(size):
            item = lst[(i + offset) % size]
            if isinstance(item, list) and not is_node(item):
                if len(item) == 0:
                    raise DontCare('empty sublist')
                item = item[j % len(item)]
            yield from embed(item, env)


def p_slide(env, lst, length=3, step=1, start=0, wrap=True, repeats=1):
    lst = _items(lst)
    size = len(lst)
    pos = exact_int(start, 'Pslide start')
    steps = stream(step, env)
    lens = stream(length, env)
    for _ in count(repeats):
        env.tick()
        n = pull(lens)
        if n is _END:
            return
        n = exact_int(n, 'Pslide length')
        for j in range(n):
            k = pos + j
            if wrap:
                yield from embed(lst[k % size], env)
            elif 0 <= k < size:
                yield from embed(lst[k], env)
            else:
                # "If false, the pattern stops if it ... goes outside the
                # list bounds."
                return
        s = pull(steps)
        if s is _END:
            return
        pos += exact_int(s, 'Pslide step')


# --- filter patterns -------------------------------------------------------

def p_n(env, p, repeats=INF):
    for _ in count(repeats):
        env.tick()
        yield from embed(p, env)


def _nonneg(n, what):
    n = exact_int(n, what)
    if n < 0:
        raise DontCare(what + ' negative')
    return n


def p_len(env, p, n):
    n = _nonneg(n, 'Plen n')
    s = stream(p, env)
    for _ in range(n):
        v = pull(s)
        if v is _END:
            return
        yield v


def p_drop(env, p, n):
    n = _nonneg(n, 'Pdrop n')
    s = stream(p, env)
    for _ in range(n):
        env.tick()
        if pull(s) is _END:
            return
    yield from s


def p_stutter(env, p, n):
    s = stream(p, env)
    ns = stream(n, env)
    while True:
        env.tick()
        v = pull(s)
        k = pull(ns)
        if v is _END or k is _END:
            return
        k = exact_int(k, 'Pstutter n')
        for _ in range(abs(k)):
            yield v


def p_clump(env, p, n):
    s = stream(p, env)
    ns = stream(n, env)
    while True:
        env.tick()
        k = pull(ns)
        if k is _END:
            return
        k = _nonneg(k, 'Pclump n')
        lst = []
        for _ in range(k):
            v = pull(s)
            if v is _END:
                if lst:
                    yield lst
                return
            lst.append(v)
        yield lst


def _has_tuple(v):
    if isinstance(v, tuple):
        return True
    return isinstance(v, list) and any(_has_tuple(i) for i in v)


def _strip(v, n):
    """The parts of value v after n levels of list nesting were removed, the
    list v itself being the first level: n <= 0 or a non-list leave v whole,
    n == 1 gives the items of v, n == 2 also opens the items of v that are
    lists, and so on."""
    if n <= 0 or not isinstance(v, list):
        yield v
        return
    for item in v:
        yield from _strip(item, n - 1)


def p_flatten(env, p, n):
    """Inverse of Pclump: Pflatten(p, n) undoes n levels of clumping, so
    that Pflatten(Pclump(Pclump(p, j), k), 2) == p and
    Pflatten(Pclump(Pclump(p, j), k), 1) == Pclump(p, j).  Each list value
    loses exactly n levels of nesting, its own list being the first one
    (this library's reading: `flatten([value], n)`; sclang's
    `value.flatten(n)` followed by yielding the items removes one level
    more - the library's reading is the one under which the level count
    matches the number of Pclump applications).  n <= 0 leaves every value
    whole; non-list values pass through.  Values that contain tuples
    (Ptuple) are don't-cares: the container type of those values is not
    decided."""
    s = stream(p, env)
    ns = stream(n, env)
    while True:
        env.tick()
        k = pull(ns)
        v = pull(s)
        if v is _END or k is _END:
            return
        k = exact_int(k, 'Pflatten n')
        if _has_tuple(v):
            raise DontCare('Pflatten of a value that contains a tuple')
        for part in _strip(v, k):
            env.tick()
            yield part


def p_diff(env, p):
    s = stream(p, env)
    prev = pull(s)
    if prev is _END:
        return
    while True:
        env.tick()
        nxt = pull(s)
        if nxt is _END:
            return
        yield lift(lambda a, b: a - b, nxt, prev)
        prev = nxt


def p_const(env, p, total, tolerance=0.001):
    """Embeds elements until the running sum comes close enough to `total`;
    then the difference between `total` and the running sum is embedded.  If
    the source ends first the remainder is embedded (sclang; it keeps the sum
    constrained)."""
    s = stream(p, env)
    acc = 0
    while True:
        env.tick()
        v = pull(s)
        if v is _END:
            yield total - acc
            return
        if isinstance(v, Rnd) or not is_num(v):
            raise DontCare('Pconst over random or non-numeric values')
        nxt = acc + v
        if nxt >= total:
            yield total - acc
            return
        if nxt > total - tolerance:
            raise DontCare('within tolerance: round vs roundup')
        acc = nxt
        yield v


def _func(name):
    f = FUNCS.get(name)
    if f is None:
        raise ValueError('unknown function ' + repr(name))
    return f


def _test(f, v):
    r = lift(f, v)
    if isinstance(r, Rnd):
        raise DontCare('predicate on a random value')
    return r


def p_collect(env, fname, p):
    f = _func(fname)
    for v in stream(p, env):
        yield lift(f, v)


def p_select(env, fname, p):
    f = _func(fname)
    for v in stream(p, env):
        env.tick()
        if _test(f, v):
            yield v


def p_reject(env, fname, p):
    f = _func(fname)
    for v in stream(p, env):
        env.tick()
        if not _test(f, v):
            yield v


def wrap_int(x, lo, hi):
    """Integer wrap between lo and hi inclusive (sclang Integer:wrap)."""
    return (x - lo) % (hi - lo + 1) + lo


def p_wrap(env, p, lo, hi):
    s = stream(p, env)
    los = stream(lo, env)
    his = stream(hi, env)
    while True:
        env.tick()
        l = pull(los)
        h = pull(his)
        v = pull(s)
        if l is _END or h is _END or v is _END:
            return
        for q in (l, h):
            exact_int(q, 'Pwrap bound')
        if l > h:
            raise DontCare('Pwrap lo > hi')
        if isinstance(v, Rnd):
            if not all(isinstance(c, int) for c in v.cands):
                raise DontCare('Pwrap of non integers')
        elif not isinstance(v, int) or isinstance(v, bool):
            raise DontCare('Pwrap of non integers')
        yield lift(lambda a: wrap_int(a, l, h), v)


# --- value patterns --------------------------------------------------------

def _series(env, start, step, length, op):
    if not is_num(start):
        raise DontCare('start is not a number')
    cur = start
    ss = stream(step, env)
    for _ in count(length):
        env.tick()
        st = pull(ss)
        if st is _END:
            return
        nxt = lift(op, cur, st)    # ill-typed step: undecided before the item
        yield cur
        cur = nxt


def p_series(env, start=0.0, step=1.0, length=INF):
    yield from _series(env, start, step, length, lambda a, b: a + b)


def p_geom(env, start=1.0, grow=1.0, length=INF):
    yield from _series(env, start, grow, length, lambda a, b: a * b)


# --- function patterns -----------------------------------------------------

def p_if(env, cond, iftrue, iffalse):
    cs = stream(cond, env)
    ts = stream(iftrue, env)
    fs = stream(iffalse, env)
    while True:
        env.tick()
        c = pull(cs)
        if c is _END:
            return
        if isinstance(c, Rnd):
            raise DontCare('random condition')
        if not is_num(c):
            raise DontCare('condition is not a boolean/number')
        v = pull(ts if c else fs)
        if v is _END:
            return
        yield v


# --- random patterns -------------------------------------------------------

def p_seed(env, seed, p):
    ss = stream(seed, env)
    while True:
        env.tick()
        sd = pull(ss)
        if sd is _END:
            return
        yield from embed(p, env)


def p_white(env, lo=0, hi=1, length=INF):
    los = stream(lo, env)
    his = stream(hi, env)
    for _ in count(length):
        env.tick()
        l = pull(los)
        h = pull(his)
        if l is _END or h is _END:
            return
        l = exact_int(l, 'Pwhite lo')
        h = exact_int(h, 'Pwhite hi')
        a, b = min(l, h), max(l, h)
        yield Rnd(range(a, b + 1))      # bounds inclusive at most


def _numbers(lst, what):
    lst = _items(lst)
    if not all(is_num(i) for i in lst):
        raise DontCare(what + ' over sub-patterns: structure is random')
    return lst


def p_rand(env, lst, repeats=1):
    lst = _numbers(lst, 'Prand')
    for _ in count(repeats):
        env.tick()
        yield Rnd(lst) if len(set(lst)) > 1 else lst[0]


def p_shuffle(env, lst, repeats=1):
    lst = _numbers(lst, 'Pshuffle')
    env.gid += 1
    gid = env.gid
    items = sorted(lst)
    for _ in count(repeats):
        env.tick()
        for pos in range(len(lst)):
            yield Rnd(lst, ('perm', gid, pos, items))


# --- operator patterns -----------------------------------------------------

def _zip(env, kernel, operands):
    streams = [stream(o, env) for o in operands]
    while True:
        env.tick()
        vals = []
        for s in streams:
            v = pull(s)
            if v is _END:
                return
            vals.append(v)
        yield lift(kernel, *vals)


def p_unop(env, name, a):
    yield from _zip(env, UNOPS[name], [a])


def p_binop(env, name, a, b):
    yield from _zip(env, BINOPS[name], [a, b])


def p_narop(env, name, a, *args):
    yield from _zip(env, NAROPS[name], [a] + list(args))


_SEM = {
    'Pseq': p_seq, 'Pser': p_ser, 'Pswitch': p_switch, 'Pswitch1': p_switch1,
    'Ptuple': p_tuple, 'Place': p_lace, 'Pslide': p_slide, 'Pn': p_n,
    'Plen': p_len, 'Pdrop': p_drop, 'Pstutter': p_stutter, 'Pclump': p_clump,
    'Pflatten': p_flatten, 'Pdiff': p_diff, 'Pconst': p_const,
    'Pcollect': p_collect, 'Pselect': p_select, 'Preject': p_reject,
    'Pwrap': p_wrap, 'Pseries': p_series, 'Pgeom': p_geom, 'Pif': p_if,
    'Pseed': p_seed, 'Pwhite': p_white, 'Prand': p_rand,
    'Pshuffle': p_shuffle, 'unop': p_unop, 'binop': p_binop,
    'narop': p_narop,
}


def denote(expr, cap=24, fuel=1000):
    """First `cap` items of the sequence denoted by `expr` and how it goes on:
    'end' (the sequence is exactly these items), 'more' (at least one more
    item exists), 'diverge' (no further item and no end), 'dontcare' (the
    continuation is not decided; `why` says so)."""
    env = Env(fuel)
    gen = embed(expr, env)
    items = []
    why = ''
    try:
        while True:
            env.refill()
            v = next(gen)
            if len(items) == cap:
                status = 'more'
                break
            items.append(v)
    except StopIteration:
        status = 'end'
    except Diverge:
        status = 'diverge'
    except DontCare as e:
        status = 'dontcare'
        why = str(e)
    except RecursionError:
        status = 'dontcare'
        why = 'recursion'
    return {'items': items, 'status': status, 'why': why}


def _norm(v):
    if isinstance(v, (list, tuple)):
        return [_norm(i) for i in v]
    return v


def matches(expected, observed):
    """Does an observed value satisfy an expected (possibly random) one?
    Lists and tuples are compared structurally (the documentation does not
    fix the container type); numbers with ==."""
    if isinstance(expected, Rnd):
        if not isinstance(observed, (int, float)):
            return False
        return observed in expected.cands
    if isinstance(expected, (list, tuple)):
        if not isinstance(observed, (list, tuple)) or \
                len(expected) != len(observed):
            return False
        return all(matches(e, o) for e, o in zip(expected, observed))
    if isinstance(observed, (list, tuple)):
        return False
    if isinstance(observed, (int, float)):      # includes bool
        return expected == observed
    return False


def perm_groups_ok(expected, observed):
    """Pshuffle: within one embedding every block of len(items) values is a
    permutation of the items and every block repeats the first one.  Only
    values that still carry the tag (untransformed) and arrive in their
    original order without gaps are checked.  Returns ''
    or a description of the failure."""
    groups = {}
    for e, o in zip(expected, observed):
        if isinstance(e, Rnd) and e.tag is not None:
            _, gid, pos, items = e.tag
            groups.setdefault(gid, (items, []))[1].append((pos, o))
    for gid, (items, seq) in groups.items():
        n = len(items)
        if any(pos != i % n for i, (pos, _) in enumerate(seq)):
            continue        # dropped / repeated / reordered by a filter
        blocks = []
        cur = []
        for pos, o in seq:
            if pos == 0 and cur:
                blocks.append(cur)
                cur = []
            cur.append(o)
        if cur:
            blocks.append(cur)
        for b in blocks:
            if len(b) == n and sorted(b) != items:
                return 'block %r is not a permutation of %r' % (b, items)
            if b != blocks[0][:len(b)]:
                return 'block %r differs from the first block %r' % (
                    b, blocks[0])
    return ''


def show(v):
    """JSON-able rendering of expected values."""
    if isinstance(v, Rnd):
        return {'any_of': sorted(v.cands)}
    if isinstance(v, (list, tuple)):
        return [show(i) for i in v]
    return v


def selftest():
    def d(e, cap=24):
        r = denote(e, cap)
        return [show(i) for i in r['items']], r['status']

    # Pseq help: Pseq([1,2,3], 2) ; offset
    assert d(['Pseq', [1, 2, 3], 2, 0]) == ([1, 2, 3, 1, 2, 3], 'end')
    assert d(['Pseq', [1, 2, 3], 2, 1]) == ([2, 3, 1, 2, 3, 1], 'end')
    assert d(['Pseq', [1, 2], 'inf', 0], 5) == ([1, 2, 1, 2, 1], 'more')
    # nested: sub-patterns are embedded in place
    assert d(['Pseq', [['Pseq', [1, 2], 2, 0], 3], 1, 0]) == \
        ([1, 2, 1, 2, 3], 'end')
    # Pser help: Pser([1,2,3], 5)
    assert d(['Pser', [1, 2, 3], 5, 0]) == ([1, 2, 3, 1, 2], 'end')
    assert d(['Pser', [1, 2, 3], 5, 1]) == ([2, 3, 1, 2, 3], 'end')
    # Pn
    assert d(['Pn', ['Pseq', [1, 2], 1, 0], 2]) == ([1, 2, 1, 2], 'end')
    assert d(['Pn', 7, 3]) == ([7, 7, 7], 'end')
    assert d(['Pn', ['Plen', 1, 0], 'inf'])[1] == 'diverge'
    # Pfin / Pdrop
    assert d(['Plen', ['Pseq', [1, 2, 3], 'inf', 0], 4]) == \
        ([1, 2, 3, 1], 'end')
    assert d(['Plen', 5, 2]) == ([5, 5], 'end')
    assert d(['Pdrop', ['Pseq', [1, 2, 3], 1, 0], 2]) == ([3], 'end')
    assert d(['Pdrop', ['Pseq', [1, 2, 3], 1, 0], 5]) == ([], 'end')
    # Pstutter help: Pstutter(Pseq([1,2,3]), Pseq([2,0,1])) variants
    assert d(['Pstutter', ['Pseq', [1, 2, 3], 1, 0], 2]) == \
        ([1, 1, 2, 2, 3, 3], 'end')
    assert d(['Pstutter', ['Pseq', [1, 2, 3], 1, 0],
              ['Pseq', [2, 0, 1], 1, 0]]) == ([1, 1, 3], 'end')
    # Pclump help: Pclump(2, Pseq([1,2,3])) -> [1,2],[3]
    assert d(['Pclump', ['Pseq', [1, 2, 3], 1, 0], 2]) == \
        ([[1, 2], [3]], 'end')
    assert d(['Pflatten', ['Pclump', ['Pseq', [1, 2, 3], 1, 0], 2], 1]) == \
        ([1, 2, 3], 'end')
    assert d(['Pflatten', ['Pclump', ['Pseq', [1, 2, 3], 1, 0], 2], 0]) == \
        ([[1, 2], [3]], 'end')
    cc = ['Pclump', ['Pclump', ['Pseq', [1, 2, 3, 4, 5], 1, 0], 2], 2]
    assert d(cc) == ([[[1, 2], [3, 4]], [[5]]], 'end')
    assert d(['Pflatten', cc, 1]) == ([[1, 2], [3, 4], [5]], 'end')
    assert d(['Pflatten', cc, 2]) == ([1, 2, 3, 4, 5], 'end')
    assert d(['Pflatten', cc, 3]) == ([1, 2, 3, 4, 5], 'end')
    assert d(['Pflatten', cc, -1]) == d(cc)
    assert d(['Pflatten', ['Pseq', [[1, [2, [3]]], 5], 1, 0], 1]) == \
        ([1, [2, [3]], 5], 'end')
    assert d(['Pflatten', ['Pseq', [[1, [2, [3]]], 5], 1, 0], 2]) == \
        ([1, 2, [3], 5], 'end')
    assert d(['Pflatten', ['Ptuple', [1, 2], 1], 1])[1] == 'dontcare'
    # Pdiff
    assert d(['Pdiff', ['Pseq', [1, 4, 9], 1, 0]]) == ([3, 5], 'end')
    # Pconst help: Pconst(5, Pseq([1,2,0.5,0.1],2)) sums to 5
    assert d(['Pconst', ['Pseq', [1, 2, 3], 'inf', 0], 5]) == \
        ([1, 2, 2], 'end')
    assert d(['Pconst', ['Pseq', [1, 2], 1, 0], 5]) == ([1, 2, 2], 'end')
    # Pswitch / Pswitch1 help
    assert d(['Pswitch', [['Pseq', [1, 2], 1, 0], 7],
              ['Pseq', [0, 1, 0], 1, 0]]) == ([1, 2, 7, 1, 2], 'end')
    assert d(['Pswitch1', [['Pseq', [1, 2], 1, 0], 7],
              ['Pseq', [0, 1, 0, 1, 0, 1], 1, 0]]) == ([1, 7, 2, 7], 'end')
    # indices wrap; aliases of one position share the item's stream
    assert d(['Pswitch1', [['Pseq', [1, 2, 3, 4, 5, 6], 1, 0],
                           ['Pseq', [10, 20, 30], 1, 0]],
              ['Pseq', [0, 2, 1, 3, 0], 1, 0]]) == ([1, 2, 10, 20, 3], 'end')
    assert d(['Pswitch1', [['Pseq', [1, 2], 1, 0], 7],
              ['Pseq', [-1, -2, 1, 0, 2], 1, 0]]) == ([7, 1, 7, 2], 'end')
    assert d(['Pswitch', [['Pseq', [1, 2], 1, 0], 7],
              ['Pseq', [2, -1], 1, 0]]) == ([1, 2, 7], 'end')
    # Place help: Place([1, [2,5], [3,6]], inf) -> 1 2 3 1 5 6 ...
    assert d(['Place', [1, [2, 5], [3, 6]], 'inf', 0], 6) == \
        ([1, 2, 3, 1, 5, 6], 'more')
    # Ptuple: ends when any ends; repeats restart
    assert d(['Ptuple', [['Pseq', [1, 2], 1, 0], 5], 2]) == \
        ([[1, 5], [2, 5], [1, 5], [2, 5]], 'end')
    # Pslide help: Pslide([1,2,3,4,5], inf, 3, 1, 0) -> 1,2,3,2,3,4,3,4,5,4,5,1
    assert d(['Pslide', [1, 2, 3, 4, 5], 3, 1, 0, True, 'inf'], 12) == \
        ([1, 2, 3, 2, 3, 4, 3, 4, 5, 4, 5, 1], 'more')
    assert d(['Pslide', [1, 2, 3], 2, 1, 0, False, 5]) == \
        ([1, 2, 2, 3, 3], 'end')
    assert d(['Pslide', [1, 2, 3], 2, -1, 0, False, 3]) == ([1, 2], 'end')
    # Pseries / Pgeom
    assert d(['Pseries', 0, 1, 4]) == ([0, 1, 2, 3], 'end')
    assert d(['Pseries', 0, ['Pseq', [1, 2], 1, 0], 'inf']) == \
        ([0, 1], 'end')
    assert d(['Pgeom', 1, 2, 4]) == ([1, 2, 4, 8], 'end')
    # Pcollect / Pselect / Preject
    assert d(['Pcollect', 'add10', ['Pseq', [1, 2], 1, 0]]) == \
        ([11, 12], 'end')
    assert d(['Pselect', 'even', ['Pseq', [1, 2, 3, 4], 1, 0]]) == \
        ([2, 4], 'end')
    assert d(['Preject', 'even', ['Pseq', [1, 2, 3, 4], 1, 0]]) == \
        ([1, 3], 'end')
    assert d(['Pselect', 'even', ['Pseries', 1, 2, 'inf']])[1] == 'diverge'
    # Pif (this library: ends at the first exhausted branch)
    assert d(['Pif', ['Pseq', [True, False], 'inf', 0],
              ['Pseq', [1, 2], 1, 0], ['Pseq', [10, 20, 30], 1, 0]]) == \
        ([1, 10, 2, 20], 'end')
    # Pwrap (integers, inclusive)
    assert d(['Pwrap', ['Pseq', [-1, 0, 3, 4], 1, 0], 0, 3]) == \
        ([3, 0, 3, 0], 'end')
    # operators end with the shortest operand
    assert d(['binop', 'add', ['Pseq', [1, 2], 1, 0],
              ['Pseq', [10, 20, 30], 1, 0]]) == ([11, 22], 'end')
    assert d(['binop', 'sub', 10, ['Pseq', [1, 2], 1, 0]]) == ([9, 8], 'end')
    assert d(['unop', 'neg', ['Pseq', [1, 2], 1, 0]]) == ([-1, -2], 'end')
    assert d(['narop', 'clip', ['Pseq', [1, 5, 9], 1, 0], 2,
              ['Pseq', [6, 6], 1, 0]]) == ([2, 5], 'end')
    # random
    r = denote(['Pseed', ['Pseq', [7], 1, 0], ['Pwhite', 0, 3, 2]])
    assert r['status'] == 'end' and len(r['items']) == 2
    assert matches(r['items'][0], 3) and not matches(r['items'][0], 4)
    r = denote(['Pseed', ['Pseq', [7], 1, 0], ['Pshuffle', [1, 2, 3], 2]])
    assert perm_groups_ok(r['items'], [2, 1, 3, 2, 1, 3]) == ''
    assert perm_groups_ok(r['items'], [2, 1, 3, 1, 2, 3]) != ''
    assert perm_groups_ok(r['items'], [2, 1, 1, 2, 1, 1]) != ''
    assert perm_groups_ok(r['items'][1:], [1, 3, 2, 1, 3]) == ''
    assert matches([1, (2, 3)], ([1, [2, 3]])) and not matches(1, [1])
    assert matches(True, 1) and not matches(2, True)
