"""Reference layout of graph-function parameters as synth controls (C04).

Written from the property statement and the SynthDef documentation; never
imports sc3.  Everything is plain data.

A *function spec*:
    {'params': [[name, ann, dflt], ...],   ann : None|'ir'|'tr'|'ar'|'kr'
                                           dflt: 'm' (no default) | 'n' (=None)
                                                 | number | [numbers] (tuple)
     'rates': None | [entry, ...],         entry: None | rate name | number
                                                 | [numbers] (lag list)
     'prepend': k,                         first k parameters are bound to
                                           prepended values (no controls)
     'tag': int,                           parameter i is sent to bus tag+i
     'wraps': [{'pos': 0|1, 'fn': spec}]}  sub-functions attached with wrap
                                           before (0) / after (1) the outputs;
                                           'pre_sig': the one prepended value
                                           is the enclosing function's first
                                           control parameter (a signal)
     'prepend_vals': [..]                  optional explicit prepended values
A *case*: {'name': def name, 'fn': spec, 'specs': {param: default} | None,
           'variants': None | [[vname, [[cname, value|[values]], ...]], ...],
           'call': None | {'pos': [values], 'kw': [[name, value], ...]}}

The reference semantics (one clause per phrase of the statement):
  * rate group of a parameter = its `rates` entry when that is a rate name,
    else its annotation, else control rate ('kr');
  * number of slots = len(tuple default) or 1; value(s) = the default, or the
    metadata spec default when there is no default, or 0.0;
  * inside one function slots are laid out group by group (ir, tr, ar, kr),
    declaration order inside a group;
  * a numeric rates entry on a control-rate parameter is its lag time (every
    slot); a lag list gives slot j the j-th time (see `lag_sets`);
  * the name table maps each name to its first slot; the body receives the
    control outputs of exactly those slots; a variant is the whole control
    array with the overrides written at the named parameter's slots.

Don't-cares (every answer accepted), encoded as *sets of acceptable answers*:
  * alignment of `rates` with a function that has prepended parameters
    ('post': entries count from the first control parameter - what sclang
    does; 'all': entries count from the first parameter of the function);
  * order of the per-function slot blocks when functions are wrapped
    (each function's parameters form one contiguous block);
  * lag of slots beyond the end of a shorter lag list (wrap / clip / none);
  * a lag list of length >1 on a one-slot control-rate parameter: `undecided`;
  * order of the name table, of the variants, of the pairs in the call;
  * how many control units realise a group, and whether unlagged control-rate
    slots sit in a Control or in a LagControl with lag 0;
  * a `rates` list with more entries than the function has parameters: a
    refusal is accepted (`excess_rates`); if the definition is built the
    surplus entries must not change the layout of the existing parameters.
  * a lag list longer than the parameter has slots: a refusal is accepted
    (`overlong_lag_list`); if built, slot j carries its j-th time.
"""

import itertools

RATE_NAMES = ('ir', 'tr', 'ar', 'kr')
GROUP_ORDER = ('ir', 'tr', 'ar', 'kr')
# group -> (acceptable unit classes, calculation rate of unit and outputs)
UNIT_OF = {'ir': (('Control',), 0), 'tr': (('TrigControl',), 1),
           'ar': (('AudioControl',), 2), 'kr': (('Control', 'LagControl'), 1)}
CONTROL_CLASSES = ('Control', 'TrigControl', 'AudioControl', 'LagControl')
MAX_VARIANT_NAME = 32


class Undecided(Exception):
    """The statement does not decide this input."""


def is_num(x):
    return isinstance(x, (int, float)) and not isinstance(x, bool)


def lag_sets(entry, nslots):
    """Acceptable lag times per slot of a control-rate parameter."""
    if entry is None or isinstance(entry, str):
        return [{0.0}] * nslots
    if is_num(entry):
        return [{float(entry)}] * nslots
    lst = [float(x) for x in entry]
    if nslots == 1:
        if len(lst) == 1:
            return [{lst[0]}]
        raise Undecided('lag list on a one-slot parameter')
    out = []
    for j in range(nslots):
        if j < len(lst):
            out.append({lst[j]})
        else:
            out.append({lst[j % len(lst)], lst[-1], 0.0})
    return out


def controls_of(fn, specs, align):
    """Controls of one function (without its wraps), declaration order."""
    specs = specs or {}
    k = fn.get('prepend', 0)
    rates = fn.get('rates') or []
    out = []
    for i, (name, ann, dflt) in enumerate(fn['params']):
        if i < k:
            continue
        ri = i - k if align == 'post' else i
        entry = rates[ri] if 0 <= ri < len(rates) else None
        if isinstance(entry, str):
            if entry not in RATE_NAMES:
                raise Undecided('unknown rate name')
            group = entry
        else:
            group = ann if ann is not None else 'kr'
        # an explicit default always wins (0, 0.0 and False included); only
        # a missing / None default takes the spec default
        if isinstance(dflt, str) and dflt in ('m', 'n'):
            values = [float(specs[name])] if name in specs else [0.0]
        elif isinstance(dflt, bool) or is_num(dflt):
            values = [float(dflt)]
        else:
            values = [float(x) for x in dflt]
            if not values:
                raise Undecided('empty tuple default')
        lags = lag_sets(entry, len(values)) if group == 'kr' else None
        # what the body receives: one signal for a scalar parameter, a list
        # of signals for a tuple default (a 1-tuple: not decided)
        shape = 'scalar' if not isinstance(dflt, list) else \
            'list' if len(values) > 1 else 'any'
        out.append({'name': name, 'group': group, 'values': values,
                    'lags': lags, 'bus': fn['tag'] + i, 'shape': shape})
    return out


def functions_of(fn):
    """Functions of a case in creation order: a function's controls exist
    before its body runs, wraps are entered in the order they are called."""
    out = [fn]
    ws = fn.get('wraps') or []
    for w in [w for w in ws if w['pos'] == 0] + \
            [w for w in ws if w['pos'] == 1]:
        out.extend(functions_of(w['fn']))
    return out


def block_layout(ctls):
    """Relative slot of every control of one function; -> (offsets, size)."""
    cur = 0
    off = {}
    for g in GROUP_ORDER:
        for c in ctls:
            if c['group'] == g:
                off[c['name']] = cur
                cur += len(c['values'])
    return off, cur


def excess_rates(case):
    """Some function of the case has more rates entries than parameters:
    the statement says nothing about entries that belong to no parameter, so
    a refusal is accepted; if the definition is built the parameters that
    exist must still be laid out by their own entries."""
    return any(len(f.get('rates') or []) > len(f['params'])
               for f in functions_of(case['fn']))


def overlong_lag_list(case):
    """Some parameter has a lag list with more times than it has slots (in
    one of the acceptable alignments): like a variant with more values than
    slots this may be refused; if the definition is built slot j carries the
    j-th time."""
    for f in functions_of(case['fn']):
        k = f.get('prepend', 0)
        rates = f.get('rates') or []
        for shift in ({0, k} if k else {0}):
            for i, (name, ann, dflt) in enumerate(f['params']):
                ri = i - shift
                if i < k or not 0 <= ri < len(rates):
                    continue
                n = len(dflt) if isinstance(dflt, list) else 1
                if isinstance(rates[ri], list) and len(rates[ri]) > n and \
                        ann in (None, 'kr'):     # a lag is used at all
                    return True
    return False


def alignments(case):
    fns = functions_of(case['fn'])
    if any(f.get('prepend', 0) and f.get('rates') for f in fns):
        return ['post', 'all']
    return ['post']


def expected(case, align='post', perm=None):
    """One acceptable layout of the whole definition."""
    fns = functions_of(case['fn'])
    blocks = [controls_of(f, case.get('specs'), align) for f in fns]
    order = list(perm) if perm is not None else list(range(len(blocks)))
    base = {}
    cur = 0
    for bi in order:
        off, size = block_layout(blocks[bi])
        base[bi] = (cur, off)
        cur += size
    total = cur
    params = [None] * total
    slots = [None] * total
    names = {}
    wiring = {}
    ctl_by_name = {}
    for bi, ctls in enumerate(blocks):
        b0, off = base[bi]
        for c in ctls:
            if c['name'] in names:
                raise Undecided('duplicate parameter name')
            s0 = b0 + off[c['name']]
            names[c['name']] = s0
            ctl_by_name[c['name']] = (s0, len(c['values']))
            wiring[c['bus']] = {'slots': list(range(s0, s0 + len(c['values']))),
                                'audio': c['group'] == 'ar',
                                'name': c['name'], 'shape': c['shape']}
            for j, v in enumerate(c['values']):
                params[s0 + j] = v
                slots[s0 + j] = {'group': c['group'], 'name': c['name'],
                                 'lags': c['lags'][j] if c['lags'] else None}
    # a wrapped function may get a *signal* of the enclosing function as its
    # prepended argument (wrap entry 'pre_sig'): what its body then sends to
    # the bus of its first parameter is the enclosing function's first
    # control parameter, unchanged (same slots, same shape)
    for f in fns:
        for w in f.get('wraps') or []:
            if w.get('pre_sig'):
                src = f['tag'] + f.get('prepend', 0)
                if src not in wiring:
                    raise Undecided('pre_sig without a control parameter')
                wiring[w['fn']['tag']] = dict(wiring[src])
    exp = {'params': params, 'names': names, 'slots': slots,
           'wiring': wiring, 'align': align, 'order': order}
    exp.update(variants_expected(case, params, ctl_by_name))
    return exp


def variants_expected(case, params, ctl_by_name):
    """-> {'variants_exact': bool, 'variants': [(full name, values)]}.
    exact: the definition holds exactly these blocks (any order); otherwise
    (some variant is unusable: unknown control, more values than slots, name
    too long for the server's 32-byte names) the statement decides nothing
    about the unusable ones, so any sub-multiset of these blocks is accepted
    (or a refusal to build/encode)."""
    vs = case.get('variants') or []
    out = []
    exact = True
    for vname, pairs in vs:
        full = case['name'] + '.' + vname
        arr = list(params)
        ok = True
        for cname, val in pairs:
            vals = [float(val)] if is_num(val) else [float(x) for x in val]
            if cname not in ctl_by_name:
                ok = False
                break
            s0, n = ctl_by_name[cname]
            if len(vals) > n:
                ok = False
                break
            for j, v in enumerate(vals):
                arr[s0 + j] = v
        if not ok:
            exact = False
            continue
        if len(full) > MAX_VARIANT_NAME:
            exact = False
        out.append((full, arr))
    return {'variants_exact': exact, 'variants': out}


def candidates(case):
    """All acceptable layouts (primary first)."""
    n = len(functions_of(case['fn']))
    for align in alignments(case):
        for perm in itertools.permutations(range(n)):
            yield expected(case, align, perm)


def undecided(case):
    try:
        for a in alignments(case):
            expected(case, a)
    except Undecided as e:
        return str(e)
    return None


def nontrivial(case):
    """>= 2 rate groups, or an array parameter, or a lagged parameter."""
    exp = expected(case)
    groups = {s['group'] for s in exp['slots']}
    arr = any(len(w['slots']) > 1 for w in exp['wiring'].values())
    lag = any(s['lags'] and s['lags'] != {0.0} for s in exp['slots'])
    return len(groups) >= 2 or arr or lag


# --------------------------------------------------------------------------
# Comparison with a decoded definition (structure of mc/oracles/scgf.py)
# --------------------------------------------------------------------------

def compare(exp, d):
    """Disagreements [(kind, expected, observed, detail)] between one
    acceptable layout and the decoded definition."""
    dis = []
    if d['params'] != exp['params']:
        dis.append(('control-array-differs', exp['params'], d['params'],
                    'default values in slot order'))
    got_names = {}
    dup = False
    for nm, ix in d['param_names']:
        if nm in got_names:
            dup = True
        got_names[nm] = ix
    if dup or got_names != exp['names']:
        dis.append(('name-table-differs', sorted(exp['names'].items()),
                    sorted(d['param_names']), 'name -> first slot'))
    # which control-unit output provides each slot
    src = {}
    bad = []
    consts = d['constants']
    for i, u in enumerate(d['units']):
        if u['name'] not in CONTROL_CLASSES:
            continue
        for o in range(len(u['outputs'])):
            s = u['special'] + o
            if s in src:
                bad.append(f'slot {s} provided twice (units {src[s][0]}, {i})')
            src[s] = (i, o)
    lagbad = []
    for s, info in enumerate(exp['slots']):
        if s not in src:
            bad.append(f'slot {s} ({info["name"]}) has no control output')
            continue
        i, o = src[s]
        u = d['units'][i]
        classes, rate = UNIT_OF[info['group']]
        if u['name'] not in classes or u['rate'] != rate or \
                u['outputs'][o] != rate:
            bad.append(f'slot {s} ({info["name"]}, {info["group"]}) comes '
                       f'from {u["name"]} rate {u["rate"]}/{u["outputs"][o]}')
            continue
        if info['group'] == 'kr':
            if u['name'] == 'LagControl':
                if len(u['inputs']) != len(u['outputs']):
                    lagbad.append(f'unit {i}: {len(u["inputs"])} lag inputs '
                                  f'for {len(u["outputs"])} outputs')
                    continue
                inp = u['inputs'][o]
                lag = consts[inp[1]] if inp[0] == 'c' else None
                if lag not in info['lags']:
                    lagbad.append(f'slot {s} ({info["name"]}) lag {lag}, '
                                  f'acceptable {sorted(info["lags"])}')
            elif 0.0 not in info['lags']:
                lagbad.append(f'slot {s} ({info["name"]}) is not lagged, '
                              f'acceptable {sorted(info["lags"])}')
        elif u['inputs']:
            bad.append(f'unit {i} {u["name"]} has inputs')
    for s in sorted(src):
        if not 0 <= s < len(exp['slots']):
            bad.append(f'control output for slot {s} outside the layout')
    if bad:
        dis.append(('control-units-differ',
                    [[s['name'], s['group']] for s in exp['slots']], bad[:6],
                    'every slot = exactly one output of a control unit of '
                    'its group, first slot = special index'))
    if lagbad:
        dis.append(('lag-times-differ',
                    [[s['name'], sorted(s['lags'])] for s in exp['slots']
                     if s['lags'] is not None], lagbad[:6], ''))
    # wiring: what each tagged Out received
    got = {}
    wbad = []
    for i, u in enumerate(d['units']):
        if u['name'] != 'Out':
            continue
        b = u['inputs'][0] if u['inputs'] else None
        bus = consts[b[1]] if b and b[0] == 'c' else None
        chans = []
        for inp in u['inputs'][1:]:
            if inp[0] == 'u' and \
                    d['units'][inp[1]]['name'] in CONTROL_CLASSES:
                chans.append(d['units'][inp[1]]['special'] + inp[2])
            else:
                chans.append(repr(inp))
        if bus in got:
            wbad.append(f'bus {bus} written twice')
        got[bus] = {'slots': chans, 'audio': u['rate'] == 2}
    want = {float(b): {'slots': w['slots'], 'audio': w['audio']}
            for b, w in exp['wiring'].items()}
    if got != want or wbad:
        dis.append(('body-wiring-differs', sorted(want.items()),
                    sorted(got.items(), key=repr) + wbad,
                    'bus tag -> slots of the control outputs the body got'))
    # variants
    gv = sorted((n, list(v)) for n, v in d['variants'])
    wv = sorted((n, list(v)) for n, v in exp['variants'])
    if exp['variants_exact']:
        okv = gv == wv
    else:
        rest = list(wv)
        okv = True
        for item in gv:
            if item in rest:
                rest.remove(item)
            else:
                okv = False
    if not okv:
        dis.append(('variant-blocks-differ', wv, gv,
                    'exact' if exp['variants_exact'] else
                    'sub-multiset accepted (unusable variant present)'))
    return dis


def check(case, d):
    """[] when the decoded definition equals one acceptable layout, else the
    disagreements with the closest acceptable layout (fewest, primary first)."""
    best = None
    for exp in candidates(case):
        dis = compare(exp, d)
        if not dis:
            return []
        if best is None or len(dis) < len(best):
            best = dis
    return best


def call_expected(case):
    """Multiset of (name, value) pairs an /s_new built by calling the
    definition must carry: positional arguments name the control parameters
    of the graph function in declaration order, keywords name themselves."""
    call = case.get('call') or {'pos': [], 'kw': []}
    fn = case['fn']
    names = [p[0] for p in fn['params']][fn.get('prepend', 0):]
    if len(call['pos']) > len(names):
        raise Undecided('more positional arguments than control parameters')
    pairs = [[n, v] for n, v in zip(names, call['pos'])]
    pairs += [[n, v] for n, v in call['kw']]
    return sorted(pairs, key=repr)


def call_observed(msg):
    """(name, value) pairs of a '/s_new name id action target k v k v ...'
    message given as a plain list; None if it is not of that form."""
    if len(msg) < 5 or msg[0] != '/s_new':
        return None
    rest = list(msg[5:])
    if len(rest) % 2:
        return None
    # (names of a wrong message may be numbers: no natural order)
    return sorted(([rest[i], rest[i + 1]]
                   for i in range(0, len(rest), 2)), key=repr)


# --------------------------------------------------------------------------

def selftest():
    # the documented example:  a:ir=(4,5), b:tr=3, c:kr=(2,1) with
    # rates [ir, 0.9, [0.8, 0.7]]  ->  a at 0, b at 2, c at 3 (tests of the
    # library pin these indices), lag of b ignored, c lagged per slot
    fn = {'params': [['a', 'ir', [4, 5]], ['b', 'tr', 3], ['c', 'kr', [2, 1]]],
          'rates': ['ir', 0.5, [0.25, 0.5]], 'prepend': 0, 'tag': 100,
          'wraps': []}
    case = {'name': 'd', 'fn': fn}
    e = expected(case)
    assert e['names'] == {'a': 0, 'b': 2, 'c': 3}, e['names']
    assert e['params'] == [4.0, 5.0, 3.0, 2.0, 1.0]
    assert [s['group'] for s in e['slots']] == ['ir', 'ir', 'tr', 'kr', 'kr']
    assert [s['lags'] for s in e['slots']][3:] == [{0.25}, {0.5}]
    # groups reorder declaration order: kr first in the signature, last in
    # the array; rates override annotations
    fn2 = {'params': [['a', None, 1.0], ['b', 'ir', 'm'], ['c', 'ar', [2, 3]],
                      ['d', 'tr', 4.0], ['e', 'ir', 5.0]],
           'rates': [None, None, None, 'kr'], 'prepend': 0, 'tag': 100,
           'wraps': []}
    e = expected({'name': 'd', 'fn': fn2})
    assert e['names'] == {'b': 0, 'e': 1, 'c': 2, 'a': 4, 'd': 5}, e['names']
    assert e['params'] == [0.0, 5.0, 2.0, 3.0, 1.0, 4.0]
    # prepend: first parameter is no control; both alignments are candidates
    fn3 = {'params': [['p', 'ar', 9.0], ['a', None, 1.0], ['b', None, 2.0]],
           'rates': ['ir'], 'prepend': 1, 'tag': 100, 'wraps': []}
    c3 = {'name': 'd', 'fn': fn3}
    assert alignments(c3) == ['post', 'all']
    assert expected(c3, 'post')['slots'][0]['name'] == 'a'
    assert expected(c3, 'post')['slots'][0]['group'] == 'ir'
    assert expected(c3, 'all')['slots'][0]['group'] == 'kr'
    # wrap: blocks; spec default; variants
    inner = {'params': [['w', None, 'm'], ['x', 'ir', 7.0]], 'rates': None,
             'prepend': 0, 'tag': 200, 'wraps': []}
    fn4 = {'params': [['a', None, [1.0, 2.0]]], 'rates': None, 'prepend': 0,
           'tag': 100, 'wraps': [{'pos': 1, 'fn': inner}]}
    c4 = {'name': 'd', 'fn': fn4, 'specs': {'w': 440.0},
          'variants': [['v', [['a', [8.0]], ['x', 9.0]]],
                       ['bad', [['zz', 1.0]]]]}
    e = expected(c4)
    assert e['params'] == [1.0, 2.0, 7.0, 440.0]
    assert e['names'] == {'a': 0, 'x': 2, 'w': 3}
    assert e['variants'] == [('d.v', [8.0, 2.0, 9.0, 440.0])]
    assert e['variants_exact'] is False
    assert len(list(candidates(c4))) == 2
    # a decoded definition that realises c4 (minus the unusable variant)
    d = {'constants': [100.0, 200.0, 201.0],
         'params': [1.0, 2.0, 7.0, 440.0],
         'param_names': [('a', 0), ('w', 3), ('x', 2)],
         'units': [
             {'name': 'Control', 'rate': 1, 'special': 0, 'inputs': [],
              'outputs': [1, 1]},
             {'name': 'Out', 'rate': 1, 'special': 0,
              'inputs': [('c', 0), ('u', 0, 0), ('u', 0, 1)], 'outputs': []},
             {'name': 'Control', 'rate': 0, 'special': 2, 'inputs': [],
              'outputs': [0]},
             {'name': 'Control', 'rate': 1, 'special': 3, 'inputs': [],
              'outputs': [1]},
             {'name': 'Out', 'rate': 1, 'special': 0,
              'inputs': [('c', 1), ('u', 3, 0)], 'outputs': []},
             {'name': 'Out', 'rate': 1, 'special': 0,
              'inputs': [('c', 2), ('u', 2, 0)], 'outputs': []}],
         'variants': [('d.v', [8.0, 2.0, 9.0, 440.0])]}
    assert check(c4, d) == [], check(c4, d)
    d2 = dict(d, param_names=[('a', 0), ('w', 2), ('x', 3)])
    assert [k for k, *_ in check(c4, d2)] == ['name-table-differs']
    d3 = dict(d, units=[dict(u) for u in d['units']])
    d3['units'][4]['inputs'] = [('c', 1), ('u', 2, 0)]
    assert 'body-wiring-differs' in [k for k, *_ in check(c4, d3)]
    d4 = dict(d, variants=[('d.v', [8.0, 2.0, 7.0, 9.0])])
    assert [k for k, *_ in check(c4, d4)] == ['variant-blocks-differ']
    # lag list shorter than the array: third slot is a don't-care among
    # wrap / clip / none; on a scalar it is undecided
    assert lag_sets([0.25, 0.5], 3) == [{0.25}, {0.5}, {0.25, 0.5, 0.0}]
    try:
        lag_sets([0.25, 0.5], 1)
    except Undecided:
        pass
    else:
        raise AssertionError('lag list on scalar must be undecided')
    # explicit falsy defaults win over a spec default; missing/None take it
    fn6 = {'params': [['a', None, 0], ['b', 'ir', 0.0], ['c', 'tr', False],
                      ['d', 'ar', [0, 0.5]], ['e', None, 'n']],
           'rates': None, 'prepend': 0, 'tag': 100, 'wraps': []}
    e = expected({'name': 'd', 'fn': fn6, 'specs': {
        'a': 440.0, 'b': 441.0, 'c': 442.0, 'd': 443.0, 'e': 444.0}})
    assert e['params'] == [0.0, 0.0, 0.0, 0.5, 0.0, 444.0], e['params']
    assert e['names'] == {'b': 0, 'c': 1, 'd': 2, 'a': 4, 'e': 5}
    # call
    c5 = {'name': 'd', 'fn': fn3, 'call': {'pos': [3, 4], 'kw': [['z', 5]]}}
    assert call_expected(c5) == [['a', 3], ['b', 4], ['z', 5]]
    assert call_observed(['/s_new', 'd', 1000, 0, 1, 'a', 3, 'z', 5,
                          'b', 4]) == call_expected(c5)
