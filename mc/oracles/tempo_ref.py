"""Reference semantics of a tempo clock (C12): an affine beat<->second map,
quantisation grids and bar lines, over exact rationals.  Written from the
property statement and the TempoClock / Quant documentation; never imports
sc3.

* One affine map at any instant: beats(s) = B + T*(s - S), secs(b) = S +
  (b - B)/T for the anchor pair (B, S) and tempo T > 0.
* `tempo = v` keeps the current pair and changes the slope; `beats = v` keeps
  the current second and makes the current beat v; a delta of d beats advances
  beats by d and seconds by d/T.
* The quantisation grid of (quant q > 0, phase p) counted from the last meter
  change at beat b0 is {b0 + (p mod q) + k*q : k integer};
  next_time_on_grid is the smallest grid point >= the reference beat.  q = 0
  means "no quantisation": the reference beat itself (plus the phase).
* Bar lines after a meter change at beat b0 to n beats per bar are
  {b0 + k*n}; next_bar(x) is the smallest bar line >= x.

Everything is plain data (numbers) in, `Fraction` out."""

import math
from fractions import Fraction as F


def frac(x):
    """Exact rational value of an int / float / Fraction."""
    return x if isinstance(x, F) else F(x)


def grid_phase(q, p):
    """Phase reduced into [0, q)."""
    q, p = frac(q), frac(p)
    return p - q * math.floor(p / q)


def next_time_on_grid(q, p, ref, b0=0):
    """Earliest beat >= ref congruent to p modulo q counted from b0."""
    q, p, ref, b0 = frac(q), frac(p), frac(ref), frac(b0)
    if q < 0:
        raise ValueError('negative quant')
    if q == 0:
        return ref + p
    off = b0 + grid_phase(q, p)
    k = math.ceil((ref - off) / q)
    return off + k * q


def on_grid(r, q, p, b0=0):
    q, p, r, b0 = frac(q), frac(p), frac(r), frac(b0)
    if q == 0:
        return True
    return ((r - b0 - p) / q).denominator == 1


def next_bar(x, b0, bpb):
    """Smallest bar line b0 + k*bpb that is >= x."""
    x, b0, bpb = frac(x), frac(b0), frac(bpb)
    return b0 + bpb * math.ceil((x - b0) / bpb)


def on_bar_line(y, b0, bpb):
    y, b0, bpb = frac(y), frac(b0), frac(bpb)
    return ((y - b0) / bpb).denominator == 1


def is_dyadic(x):
    d = frac(x).denominator
    return d & (d - 1) == 0


def is_pow2(x):
    x = frac(x)
    return x > 0 and is_dyadic(x) and is_dyadic(1 / x)


class Affine:
    """The beat<->second map plus the current instant."""

    def __init__(self, tempo, beats=0, secs=0):
        self.T = frac(tempo)
        self.B = frac(beats)      # current beat
        self.S = frac(secs)       # current second
        self.aB, self.aS = self.B, self.S   # anchor of the map

    def beats_at(self, s):
        return self.aB + self.T * (frac(s) - self.aS)

    def secs_at(self, b):
        return self.aS + (frac(b) - self.aB) / self.T

    def set_tempo(self, v):
        self.aB, self.aS = self.B, self.S
        self.T = frac(v)

    def set_beats(self, v):
        self.B = frac(v)
        self.aB, self.aS = self.B, self.S

    def advance(self, d):
        """A delta of d beats: returns the (beat, second) of the wake-up."""
        self.B = self.B + frac(d)
        self.S = self.secs_at(self.B)
        return self.B, self.S

    def jump(self, b, s):
        """Adopt an observed instant (used where the statement leaves the
        wake-up point open); caller has checked that it lies on the map."""
        self.B, self.S = frac(b), frac(s)

    def on_map(self, b, s):
        return frac(b) - self.aB == self.T * (frac(s) - self.aS)

    def map_residual(self, b, s):
        return (frac(b) - self.aB) - self.T * (frac(s) - self.aS)


class Meter:
    def __init__(self):
        self.b0 = F(0)
        self.bpb = F(4)

    def set(self, beat, bpb):
        self.b0 = frac(beat)
        self.bpb = frac(bpb)


def selftest():
    # Quant documentation: quant 1 -> next whole beat; a beat on the grid is
    # returned unchanged.
    assert next_time_on_grid(1, 0, 2.25) == 3
    assert next_time_on_grid(1, 0, 2) == 2
    assert next_time_on_grid(4, 0, 0.5) == 4
    # phase 2 in a bar of 4: next third beat of the current or next bar
    assert next_time_on_grid(4, 2, 0.5) == 2
    assert next_time_on_grid(4, 2, 2.5) == 6
    # a negative phase is the same grid as phase + quant
    assert next_time_on_grid(4, -1, 0.5) == 3 == next_time_on_grid(4, 3, 0.5)
    assert next_time_on_grid(4, -1, 3.5) == 7
    # counted from the last meter change at beat 1.5
    assert next_time_on_grid(2, 0, 1.5, 1.5) == F(3, 2)
    assert next_time_on_grid(2, 0, 1.75, 1.5) == F(7, 2)
    assert next_time_on_grid(1.5, -0.25, 4.25, 1.5) == F(17, 4)
    assert next_time_on_grid(1.5, -0.25, 4.5, 1.5) == F(23, 4)
    # reference before the meter change, negative reference
    assert next_time_on_grid(1, 0.25, -1.5, 3) == F(-3, 4)
    assert next_time_on_grid(0, 0, 7.25) == F(29, 4)
    assert on_grid(F(17, 4), 1.5, -0.25, 1.5)
    assert not on_grid(F(9, 2), 1.5, -0.25, 1.5)
    # bars: default meter 4 from beat 0
    assert next_bar(0, 0, 4) == 0 and next_bar(0.25, 0, 4) == 4
    assert next_bar(4, 0, 4) == 4 and next_bar(-0.25, 0, 4) == 0
    assert next_bar(5, 3, 3) == 6 and next_bar(6, 3, 3) == 6
    assert on_bar_line(6, 3, 3) and not on_bar_line(5, 3, 3)
    # affine map: tempo 2 -> 2 beats per second
    a = Affine(2)
    assert a.advance(1) == (1, F(1, 2))
    a.set_tempo(0.5)                       # pair stays (1, 1/2)
    assert (a.B, a.S) == (1, F(1, 2))
    assert a.advance(1) == (2, F(5, 2))    # one beat now lasts 2 s
    assert a.beats_at(F(3, 2)) == F(3, 2) and a.secs_at(F(3, 2)) == F(3, 2)
    a.set_beats(10)                        # second stays, beat becomes 10
    assert (a.B, a.S) == (10, F(5, 2))
    assert a.beats_at(F(9, 2)) == 11 and a.secs_at(9) == F(1, 2)
    assert a.on_map(11, 4.5) and not a.on_map(11, 4.25)
    a = Affine(3)
    assert a.advance(1) == (1, F(1, 3))
    assert is_pow2(0.5) and is_pow2(4) and not is_pow2(3) and not is_pow2(1.5)
    assert is_dyadic(1.5) and not is_dyadic(F(1, 3))


if __name__ == '__main__':
    selftest()
    print('tempo_ref selftest ok')
