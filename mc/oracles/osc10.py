"""Strict OSC 1.0 codec, written from the OSC 1.0 specification
(opensoundcontrol.org/spec-1_0) - never imports sc3.

Wire rules implemented (all of them are *checked* by the decoder):

* every packet is a multiple of 4 bytes; a packet is a message (first byte
  '/') or a bundle (first 8 bytes '#bundle\\0');
* OSC-string: non-NUL bytes, one terminating NUL, then 0-3 further NULs up to
  the next 4-byte boundary (padding bytes must be zero).  The spec says ASCII;
  like every SuperCollider client this codec carries UTF-8 (pass
  `ascii_only=True` to refuse non-ASCII);
* type tag string: OSC-string that starts with ','; tags
  i f s b (required types), h t d S c r m T F N I [ ] (listed nonstandard types);
* int32/float32 big-endian; int64/float64/timetag 8 bytes big-endian;
* OSC-blob: int32 size >= 0, that many bytes, zero padding to a 4-byte boundary;
* bundle: '#bundle\\0', 8-byte timetag, then elements: int32 size (> 0, multiple
  of 4, within the packet) followed by exactly that many bytes holding one
  message or bundle; nothing may remain after the last element/argument.

Plain structures
----------------
decode(dgram) returns

    {'type': 'message', 'address': str, 'tags': 'if[s]', 'args': [1, 0.5, ['x']]}
    {'type': 'bundle', 'timetag': int, 'elements': [<message|bundle>, ...]}

Argument values by tag: i,h,t -> int; f,d -> float (f: the float32 value); s,S ->
str; b -> bytes; c -> str of length 1; r -> int (uint32); m -> tuple of 4 ints
(port, status, data1, data2); T -> True; F -> False; N -> None; I -> IMPULSE;
'[' ... ']' -> nested list.  `tags` keeps the exact tag string without ','.

Encoding accepts the same structures.  `encode_message(addr, args)` infers
tags from Python values (bool -> T/F, int -> i, float -> f, str -> s,
bytes-like -> b, None -> N, list -> array, Typed(tag, value) -> explicit tag) and
refuses what OSC cannot carry (int outside int32, float outside float32 range,
NUL inside a string, unknown types).  No client-side coercions are applied
here; those belong to the check that uses the codec.

Convenience for other checks: `flatten(struct)` lists the messages of a packet
as (timetag_or_None, address, [(tag, value), ...]) in wire order; `typed(msg)`
gives [(tag, value), ...] for one decoded message.
"""

import math
import struct

BUNDLE_TAG = b'#bundle\x00'
IMMEDIATELY = 1
INT32_MIN, INT32_MAX = -2 ** 31, 2 ** 31 - 1
FLOAT32_MAX = (2 - 2 ** -23) * 2.0 ** 127


class OscError(ValueError):
    """Malformed packet (decode) or unrepresentable value (encode)."""


class _Impulse:
    def __repr__(self):
        return 'IMPULSE'


IMPULSE = _Impulse()


class Typed:
    """Explicitly tagged argument for the encoder, e.g. Typed('d', 0.5)."""
    __slots__ = ('tag', 'value')

    def __init__(self, tag, value=None):
        self.tag = tag
        self.value = value

    def __repr__(self):
        return f'Typed({self.tag!r}, {self.value!r})'

    def __eq__(self, other):
        return isinstance(other, Typed) and \
            (self.tag, self.value) == (other.tag, other.value)

    def __hash__(self):
        return hash((self.tag, self.value))


# --------------------------------------------------------------------------
# sizes

def pad4(n):
    """Smallest multiple of 4 that is >= n."""
    return (n + 3) & ~3


def string_size(s, encoding='utf-8'):
    """Encoded size of an OSC-string (terminator and padding included)."""
    return pad4(len(s.encode(encoding)) + 1)


def blob_size(b):
    """Encoded size of an OSC-blob (size count and padding included)."""
    return 4 + pad4(len(b))


def float32(x):
    """Nearest float32 (round to nearest even) as a Python float; raises
    OscError when a finite x lies outside the float32 range."""
    x = float(x)
    if math.isnan(x) or math.isinf(x):
        return x
    try:
        return struct.unpack('>f', struct.pack('>f', x))[0]
    except OverflowError:
        raise OscError(f'float {x!r} does not fit in 32 bits') from None


# --------------------------------------------------------------------------
# encoder

def _enc_string(s, ascii_only=False):
    if not isinstance(s, str):
        raise OscError(f'not a string: {s!r}')
    try:
        raw = s.encode('ascii' if ascii_only else 'utf-8')
    except UnicodeEncodeError:
        raise OscError(f'string not encodable: {s!r}') from None
    if b'\x00' in raw:
        raise OscError(f'NUL inside OSC-string: {s!r}')
    return raw + b'\x00' * (pad4(len(raw) + 1) - len(raw))


def _enc_blob(b):
    b = bytes(b)
    return struct.pack('>i', len(b)) + b + b'\x00' * (pad4(len(b)) - len(b))


def _infer(v):
    if isinstance(v, Typed):
        return v.tag, v.value
    if v is True:
        return 'T', True
    if v is False:
        return 'F', False
    if v is None:
        return 'N', None
    if v is IMPULSE:
        return 'I', IMPULSE
    if isinstance(v, int):
        return 'i', v
    if isinstance(v, float):
        return 'f', v
    if isinstance(v, str):
        return 's', v
    if isinstance(v, (bytes, bytearray, memoryview)):
        return 'b', bytes(v)
    if isinstance(v, list):
        return '[', v
    raise OscError(f'no OSC type for {type(v).__name__}: {v!r}')


def _enc_args(args, tags, data, ascii_only):
    for v in args:
        tag, val = _infer(v)
        if tag == '[':
            tags.append('[')
            _enc_args(val, tags, data, ascii_only)
            tags.append(']')
            continue
        tags.append(tag)
        if tag == 'i':
            if isinstance(val, bool) or not isinstance(val, int) or \
                    not INT32_MIN <= val <= INT32_MAX:
                raise OscError(f'not an int32: {val!r}')
            data.append(struct.pack('>i', val))
        elif tag == 'f':
            if isinstance(val, bool) or not isinstance(val, (int, float)):
                raise OscError(f'not a float: {val!r}')
            float32(val)
            data.append(struct.pack('>f', val))
        elif tag in 'sS':
            data.append(_enc_string(val, ascii_only))
        elif tag == 'b':
            data.append(_enc_blob(val))
        elif tag == 'h':
            if not -2 ** 63 <= val < 2 ** 63:
                raise OscError(f'not an int64: {val!r}')
            data.append(struct.pack('>q', val))
        elif tag == 't':
            if not 0 <= val < 2 ** 64:
                raise OscError(f'not a timetag: {val!r}')
            data.append(struct.pack('>Q', val))
        elif tag == 'd':
            data.append(struct.pack('>d', val))
        elif tag == 'c':
            if not isinstance(val, str) or len(val) != 1 or ord(val) > 127:
                raise OscError(f'not an ASCII character: {val!r}')
            data.append(struct.pack('>I', ord(val)))
        elif tag == 'r':
            if not 0 <= val < 2 ** 32:
                raise OscError(f'not an rgba32: {val!r}')
            data.append(struct.pack('>I', val))
        elif tag == 'm':
            val = tuple(val)
            if len(val) != 4 or any(not isinstance(x, int) or
                                    not 0 <= x <= 255 for x in val):
                raise OscError(f'not a MIDI message: {val!r}')
            data.append(bytes(val))
        elif tag in 'TFNI':
            pass
        else:
            raise OscError(f'unknown type tag {tag!r}')


def encode_message(addr, args=(), ascii_only=False):
    """OSC message bytes for address `addr` and argument values `args`."""
    if not isinstance(addr, str) or not addr.startswith('/'):
        raise OscError(f'address must start with "/": {addr!r}')
    tags, data = [], []
    _enc_args(list(args), tags, data, ascii_only)
    return _enc_string(addr, ascii_only) + \
        _enc_string(',' + ''.join(tags), True) + b''.join(data)


def encode_bundle(timetag_int, elements=(), ascii_only=False):
    """OSC bundle bytes.  `elements`: already encoded packets (bytes) or
    decoded structures (dicts as returned by `decode`)."""
    if isinstance(timetag_int, bool) or not isinstance(timetag_int, int) or \
            not 0 <= timetag_int < 2 ** 64:
        raise OscError(f'timetag must be a uint64: {timetag_int!r}')
    out = [BUNDLE_TAG, struct.pack('>Q', timetag_int)]
    for e in elements:
        raw = bytes(e) if isinstance(e, (bytes, bytearray, memoryview)) \
            else encode(e, ascii_only)
        if not raw or len(raw) % 4:
            raise OscError('bundle element size must be a positive '
                           f'multiple of 4, got {len(raw)}')
        if not (raw[:1] == b'/' or raw[:8] == BUNDLE_TAG):
            raise OscError('bundle element is neither message nor bundle')
        out.append(struct.pack('>i', len(raw)))
        out.append(raw)
    return b''.join(out)


def _retag(tags, args):
    """Pair a decoded tag string with its (nested) argument list so that the
    encoder reproduces exactly those tags."""
    out, stack = [], []
    cur, src = out, [iter(args)]
    for t in tags:
        if t == '[':
            new = []
            cur.append(new)
            stack.append(cur)
            cur = new
            src.append(iter(next(src[-1])))
        elif t == ']':
            cur = stack.pop()
            src.pop()
        else:
            cur.append(Typed(t, next(src[-1])))
    return out


def encode(struct_, ascii_only=False):
    """Inverse of `decode` for the plain structures."""
    if struct_['type'] == 'message':
        if 'tags' in struct_:
            args = _retag(struct_['tags'], struct_['args'])
        else:
            args = struct_['args']
        return encode_message(struct_['address'], args, ascii_only)
    if struct_['type'] == 'bundle':
        return encode_bundle(struct_['timetag'], struct_['elements'],
                             ascii_only)
    raise OscError(f'unknown structure type {struct_.get("type")!r}')


# --------------------------------------------------------------------------
# decoder

def _dec_string(d, i, end, ascii_only, what):
    j = d.find(b'\x00', i, end)
    if j < 0:
        raise OscError(f'{what}: unterminated OSC-string at {i}')
    stop = i + pad4(j - i + 1)
    if stop > end:
        raise OscError(f'{what}: OSC-string padding runs past the end')
    if any(d[j:stop]):
        raise OscError(f'{what}: non-zero padding after OSC-string at {i}')
    try:
        s = d[i:j].decode('ascii' if ascii_only else 'utf-8')
    except UnicodeDecodeError:
        raise OscError(f'{what}: OSC-string is not valid text at {i}') \
            from None
    return s, stop


def _need(d, i, n, end, what):
    if i + n > end:
        raise OscError(f'{what}: {n} bytes needed at {i}, packet ends at '
                       f'{end}')


def _dec_message(d, start, end, ascii_only):
    addr, i = _dec_string(d, start, end, ascii_only, 'address')
    if not addr.startswith('/'):
        raise OscError(f'address does not start with "/": {addr!r}')
    if i >= end:
        raise OscError('message without type tag string')
    tagstr, i = _dec_string(d, i, end, True, 'type tags')
    if not tagstr.startswith(','):
        raise OscError(f'type tag string does not start with ",": '
                       f'{tagstr!r}')
    tags = tagstr[1:]
    args = []
    stack = [args]
    for t in tags:
        if t == '[':
            new = []
            stack[-1].append(new)
            stack.append(new)
            continue
        if t == ']':
            if len(stack) < 2:
                raise OscError(f'unbalanced "]" in type tags {tags!r}')
            stack.pop()
            continue
        if t == 'i':
            _need(d, i, 4, end, 'int32')
            v = struct.unpack_from('>i', d, i)[0]
            i += 4
        elif t == 'f':
            _need(d, i, 4, end, 'float32')
            v = struct.unpack_from('>f', d, i)[0]
            i += 4
        elif t in 'sS':
            v, i = _dec_string(d, i, end, ascii_only, 'string argument')
        elif t == 'b':
            _need(d, i, 4, end, 'blob size')
            n = struct.unpack_from('>i', d, i)[0]
            if n < 0:
                raise OscError(f'negative blob size {n}')
            i += 4
            stop = i + pad4(n)
            if stop > end:
                raise OscError(f'blob of {n} bytes (padded {pad4(n)}) runs '
                               'past the end')
            if any(d[i + n:stop]):
                raise OscError('non-zero blob padding')
            v = bytes(d[i:i + n])
            i = stop
        elif t == 'h':
            _need(d, i, 8, end, 'int64')
            v = struct.unpack_from('>q', d, i)[0]
            i += 8
        elif t == 't':
            _need(d, i, 8, end, 'timetag')
            v = struct.unpack_from('>Q', d, i)[0]
            i += 8
        elif t == 'd':
            _need(d, i, 8, end, 'float64')
            v = struct.unpack_from('>d', d, i)[0]
            i += 8
        elif t == 'c':
            _need(d, i, 4, end, 'char')
            n = struct.unpack_from('>I', d, i)[0]
            if n > 127:
                raise OscError(f'char argument is not ASCII: {n}')
            v = chr(n)
            i += 4
        elif t == 'r':
            _need(d, i, 4, end, 'rgba')
            v = struct.unpack_from('>I', d, i)[0]
            i += 4
        elif t == 'm':
            _need(d, i, 4, end, 'midi')
            v = tuple(d[i:i + 4])
            i += 4
        elif t == 'T':
            v = True
        elif t == 'F':
            v = False
        elif t == 'N':
            v = None
        elif t == 'I':
            v = IMPULSE
        else:
            raise OscError(f'unknown type tag {t!r} in {tags!r}')
        stack[-1].append(v)
    if len(stack) != 1:
        raise OscError(f'unbalanced "[" in type tags {tags!r}')
    if i != end:
        raise OscError(f'{end - i} bytes left after the last argument')
    return {'type': 'message', 'address': addr, 'tags': tags, 'args': args}


def _dec_packet(d, start, end, ascii_only, nested_time, parent_tt=None):
    n = end - start
    if n <= 0 or n % 4:
        raise OscError(f'packet size {n} is not a positive multiple of 4')
    if d[start:start + 8] == BUNDLE_TAG:
        _need(d, start + 8, 8, end, 'bundle timetag')
        tt = struct.unpack_from('>Q', d, start + 8)[0]
        if nested_time and parent_tt is not None and tt < parent_tt:
            raise OscError(f'nested timetag {tt} precedes enclosing '
                           f'{parent_tt}')
        i = start + 16
        elements = []
        while i < end:
            _need(d, i, 4, end, 'element size')
            size = struct.unpack_from('>i', d, i)[0]
            i += 4
            if size <= 0 or size % 4:
                raise OscError(f'bundle element size {size} is not a '
                               'positive multiple of 4')
            if i + size > end:
                raise OscError(f'bundle element of {size} bytes at {i} runs '
                               f'past the end ({end})')
            elements.append(_dec_packet(d, i, i + size, ascii_only,
                                        nested_time, tt))
            i += size
        return {'type': 'bundle', 'timetag': tt, 'elements': elements}
    if d[start:start + 1] == b'/':
        return _dec_message(d, start, end, ascii_only)
    raise OscError('packet is neither a message ("/...") nor a bundle '
                   '("#bundle")')


def decode(dgram, ascii_only=False, nested_time=False):
    """Strictly decode one OSC packet (the raw datagram, *without* any
    stream/score length prefix).  Raises OscError on anything malformed.
    nested_time=True additionally enforces the OSC 1.0 rule that an enclosed
    bundle's timetag is >= the enclosing one."""
    if not isinstance(dgram, (bytes, bytearray, memoryview)):
        raise OscError(f'datagram must be bytes, not {type(dgram).__name__}')
    d = bytes(dgram)
    return _dec_packet(d, 0, len(d), ascii_only, nested_time)


def decode_stream(raw, ascii_only=False):
    """Decode a sequence of int32-size-prefixed packets (NRT score file /
    OSC over TCP framing): returns the list of decoded packets."""
    d = bytes(raw)
    i, out = 0, []
    while i < len(d):
        _need(d, i, 4, len(d), 'packet size')
        n = struct.unpack_from('>i', d, i)[0]
        i += 4
        if n <= 0 or i + n > len(d):
            raise OscError(f'bad packet size {n} at {i - 4}')
        out.append(_dec_packet(d, i, i + n, ascii_only, False))
        i += n
    return out


# --------------------------------------------------------------------------
# helpers for consumers

def typed(msg):
    """[(tag, value), ...] of a decoded message; arrays appear as
    ('[', [(tag, value), ...])."""
    def walk(tags, args, pos):
        out = []
        it = iter(args)
        while pos < len(tags):
            t = tags[pos]
            pos += 1
            if t == '[':
                sub, pos = walk(tags, next(it), pos)
                out.append(('[', sub))
            elif t == ']':
                return out, pos
            else:
                out.append((t, next(it)))
        return out, pos
    return walk(msg['tags'], msg['args'], 0)[0]


def flatten(struct_, _tt=None):
    """Messages of a decoded packet in wire order:
    [(timetag of the innermost enclosing bundle or None, address,
      [(tag, value), ...]), ...]."""
    if struct_['type'] == 'message':
        return [(_tt, struct_['address'], typed(struct_))]
    out = []
    for e in struct_['elements']:
        out += flatten(e, struct_['timetag'])
    return out


def same_value(a, b):
    """Structural equality of decoded values where NaN equals NaN."""
    if isinstance(a, float) and isinstance(b, float):
        return a == b or (math.isnan(a) and math.isnan(b))
    if isinstance(a, (list, tuple)) and isinstance(b, (list, tuple)):
        return type(a) is type(b) and len(a) == len(b) and \
            all(same_value(x, y) for x, y in zip(a, b))
    if isinstance(a, dict) and isinstance(b, dict):
        return a.keys() == b.keys() and \
            all(same_value(a[k], b[k]) for k in a)
    return type(a) is type(b) and a == b


# --------------------------------------------------------------------------

def selftest():
    # Examples from the OSC 1.0 specification.
    m1 = bytes.fromhex('2f6f7363696c6c61746f722f342f6672657175656e637900'
                       '2c660000' '43dc0000')
    assert encode_message('/oscillator/4/frequency', [440.0]) == m1
    assert decode(m1) == {'type': 'message',
                          'address': '/oscillator/4/frequency',
                          'tags': 'f', 'args': [440.0]}
    m2 = bytes.fromhex('2f666f6f00000000' '2c69697366660000' '000003e8'
                       'ffffffff' '68656c6c6f000000' '3f9df3b6' '40b5b22d')
    assert encode_message('/foo', [1000, -1, 'hello', 1.234, 5.678]) == m2
    d2 = decode(m2)
    assert d2['tags'] == 'iisff' and d2['args'][:3] == [1000, -1, 'hello']
    assert d2['args'][3] == float32(1.234) and d2['args'][4] == float32(5.678)
    assert encode(d2) == m2
    # String sizes: "OSC" -> 4 bytes, "data" -> 8 bytes (spec examples).
    assert _enc_string('OSC') == b'OSC\x00'
    assert _enc_string('data') == b'data\x00\x00\x00\x00'
    assert string_size('') == 4 and string_size('abc') == 4 and \
        string_size('abcd') == 8
    assert blob_size(b'') == 4 and blob_size(b'12345') == 12
    # Blob, arrays, tag-only types.
    m3 = encode_message('/b', [b'12345', [1, [2.0]], True, False, None,
                               Typed('m', (0, 144, 60, 64)),
                               Typed('d', 0.1), Typed('t', 1), Typed('h', -2)])
    assert m3.startswith(b'/b\x00\x00,b[i[f]]TFNmdth\x00' +
                         b'\x00\x00\x00\x0512345\x00\x00\x00' +
                         b'\x00\x00\x00\x01\x40\x00\x00\x00' + b'\x00\x90<@')
    d3 = decode(m3)
    assert d3['args'] == [b'12345', [1, [2.0]], True, False, None,
                          (0, 144, 60, 64), 0.1, 1, -2]
    assert encode(d3) == m3
    assert typed(d3)[1] == ('[', [('i', 1), ('[', [('f', 2.0)])])
    # Bundles: size-prefixed elements, recursion.
    inner = encode_bundle(2 ** 32, [encode_message('/y', ['ñ'])])
    b = encode_bundle(1, [encode_message('/x'), inner])
    assert b == (b'#bundle\x00' + b'\x00' * 7 + b'\x01' +
                 b'\x00\x00\x00\x08/x\x00\x00,\x00\x00\x00' +
                 b'\x00\x00\x00\x20#bundle\x00\x00\x00\x00\x01\x00\x00\x00\x00'
                 b'\x00\x00\x00\x0c/y\x00\x00,s\x00\x00\xc3\xb1\x00\x00')
    db = decode(b)
    assert db['timetag'] == 1 and db['elements'][1]['timetag'] == 2 ** 32
    assert encode(db) == b
    assert flatten(db) == [(1, '/x', []), (2 ** 32, '/y', [('s', 'ñ')])]
    assert decode_stream(struct.pack('>i', len(b)) + b) == [db]
    assert decode(encode_bundle(5)) == {'type': 'bundle', 'timetag': 5,
                                        'elements': []}
    # Refusals of the encoder.
    for bad in (lambda: encode_message('/a', [2 ** 31]),
                lambda: encode_message('/a', [-2 ** 31 - 1]),
                lambda: encode_message('/a', [1e39]),
                lambda: encode_message('/a', ['a\x00b']),
                lambda: encode_message('a', []),
                lambda: encode_message('/a', [object()]),
                lambda: encode_message('/ñ', [], ascii_only=True),
                lambda: encode_bundle(-1),
                lambda: encode_bundle(0, [b'/a\x00']),
                lambda: encode_bundle(0, [b'abcd'])):
        try:
            bad()
        except OscError:
            continue
        raise AssertionError('encoder accepted an unrepresentable value')
    # Refusals of the decoder: every one-byte truncation / extension and a
    # set of hand-made malformed packets.
    malformed = [
        b'', b'/a\x00', b'/a\x00\x00', b'/a\x00\x00,i\x00\x00',
        b'/a\x00\x00,i\x00\x00\x00\x00\x00\x01\x00\x00\x00\x00',  # trailing
        b'/a\x00x,\x00\x00\x00',                 # dirty address padding
        b'/a\x00\x00,s\x00\x00a\x00b\x00',       # dirty string padding
        b'/a\x00\x00,b\x00\x00\x00\x00\x00\x01x\x00\x00\x01',  # dirty blob pad
        b'/a\x00\x00,b\x00\x00\x00\x00\x00\x05abcd',           # short blob
        b'/a\x00\x00,b\x00\x00\xff\xff\xff\xff',               # negative blob
        b'/a\x00\x00i\x00\x00\x00\x00\x00\x00\x01',            # no comma
        b'/a\x00\x00,[\x00\x00', b'/a\x00\x00,]\x00\x00',
        b'/a\x00\x00,x\x00\x00',
        b'a\x00\x00\x00,\x00\x00\x00',
        b'#bundle\x00\x00\x00\x00\x00',
        b'#bundle\x00' + b'\x00' * 8 + b'\x00\x00\x00\x00',     # size 0
        b'#bundle\x00' + b'\x00' * 8 + b'\xff\xff\xff\xfc',     # size -4
        b'#bundle\x00' + b'\x00' * 8 + b'\x00\x00\x00\x0c/x\x00\x00,\x00\x00\x00',
        b'#bundle\x00' + b'\x00' * 8 + b'\x00\x00\x00\x06/x\x00\x00,\x00\x00\x00',
        b'#bundle\x00' + b'\x00' * 8 + b'\x00\x00\x00\x04abcd',
    ]
    for good in (m1, m2, m3, b):
        malformed += [good[:-1], good + b'\x00', good[:-4] if good is not b
                      else good[:-8]]
    for bad in malformed:
        try:
            decode(bad)
        except OscError:
            continue
        raise AssertionError(f'decoder accepted malformed packet {bad!r}')
    try:
        decode(encode_bundle(5, [encode_bundle(4)]), nested_time=True)
        raise AssertionError('nested_time not enforced')
    except OscError:
        pass
    assert decode(encode_bundle(5, [encode_bundle(4)]))['elements'][0][
        'timetag'] == 4
    assert same_value([float('nan'), (1, 2)], [float('nan'), (1, 2)])
    assert not same_value([1], [1.0]) and not same_value([True], [1])
    assert float32(0.001) != 0.001 and float32(0.5) == 0.5
    return True


if __name__ == '__main__':
    selftest()
    print('osc10 selftest ok')
