"""C15 reference semantics of operator lifting, written from the property
statement only (never imports sc3):

    (f op g)(x)     = f(x) op g(x)                       functions, point-wise
    next(s op t)    = next(s) op next(t)                 streams / patterns
    [a..] op [b..]  = element-wise with wrap-around      lists, any nesting
    Operand(a) op b = a op b                             operands

The *numeric* operator `op` is a parameter (`kernel`, any callable on plain
numbers): the lifting law does not say what the kernel computes, only that
the composed object applies it to the evaluated operands.

An operand denotation is one of
    ('const', v)     a plain number: the same value at every point
    ('seq', [v..])   a function (value at point k is v[k % n]) or a finite
                     stream / pattern (k-th `next`, then end of stream)
    ('list', x)      a (nested) list evaluated element-wise

An outcome is ('ok', value) | ('raise', ExceptionClassName) | ('stop',).
"""

SEQ = (list, tuple)


def is_seq(x):
    return isinstance(x, SEQ)


def is_nan(x):
    return isinstance(x, float) and x != x


def same(a, b):
    """Equality of evaluation results: numeric `==`, NaN equals NaN,
    sequences structurally (container type is a don't-care)."""
    if is_seq(a) or is_seq(b):
        if not (is_seq(a) and is_seq(b)) or len(a) != len(b):
            return False
        return all(same(x, y) for x, y in zip(a, b))
    if is_nan(a) or is_nan(b):
        return is_nan(a) and is_nan(b)
    if isinstance(a, complex) or isinstance(b, complex):
        try:
            a, b = complex(a), complex(b)
        except Exception:
            return False
        return (same(a.real, b.real) and same(a.imag, b.imag))
    try:
        return bool(a == b)
    except Exception:
        return False


def same_shape(a, b):
    """Structure only (used where the kernel draws random numbers)."""
    if is_seq(a) or is_seq(b):
        if not (is_seq(a) and is_seq(b)) or len(a) != len(b):
            return False
        return all(same_shape(x, y) for x, y in zip(a, b))
    return True


def apply(kernel, args):
    try:
        return ('ok', kernel(*args))
    except Exception as e:
        return ('raise', type(e).__name__)


def elementwise(kernel, operands):
    """Element-wise with wrap-around over any nesting.  Returns
    ('ok', nested list) or ('raise', sorted list of every exception class some
    element raises) - which element's exception surfaces first is not decided
    by the statement, so any of them is acceptable."""
    raised = set()

    def rec(ops):
        if not any(is_seq(o) for o in ops):
            o = apply(kernel, ops)
            if o[0] == 'raise':
                raised.add(o[1])
                return None
            return o[1]
        n = max(len(o) for o in ops if is_seq(o))
        return [rec([o[i % len(o)] if is_seq(o) else o for o in ops])
                for i in range(n)]

    for o in _walk(operands):
        if is_seq(o) and len(o) == 0:
            raise ValueError('wrap-around of an empty list is undefined')
    val = rec(list(operands))
    if raised:
        return ('raise', sorted(raised))
    return ('ok', val)


def _walk(x):
    for o in x:
        yield o
        if is_seq(o):
            yield from _walk(o)


def value_of(den, k):
    tag, v = den
    if tag == 'const':
        return v
    if tag == 'seq':
        return v[k % len(v)]
    raise ValueError(tag)


def pointwise(kernel, dens, npoints):
    """Function law: one outcome per evaluation point."""
    return [apply(kernel, [value_of(d, k) for d in dens])
            for k in range(npoints)]


def zipped(kernel, dens):
    """Stream law: outcomes of successive `next` calls; the composed stream
    ends when its shortest operand ends; observation stops at the first
    exception."""
    lens = [len(d[1]) for d in dens if d[0] == 'seq']
    if not lens:
        raise ValueError('no finite operand: infinite stream')
    out = []
    for k in range(min(lens)):
        o = apply(kernel, [d[1] if d[0] == 'const' else d[1][k]
                           for d in dens])
        out.append(o)
        if o[0] == 'raise':
            return out
    out.append(('stop',))
    return out


def outcome_matches(exp, obs, values_matter=True):
    """One expected outcome against one observed outcome."""
    if exp[0] != obs[0]:
        return False
    if exp[0] == 'stop':
        return True
    if exp[0] == 'raise':
        if isinstance(exp[1], list):
            return obs[1] in exp[1]
        return exp[1] == obs[1]
    if values_matter:
        return same(exp[1], obs[1])
    return same_shape(exp[1], obs[1])


def outcomes_match(exps, obss, values_matter=True):
    return len(exps) == len(obss) and all(
        outcome_matches(e, o, values_matter) for e, o in zip(exps, obss))


def selftest():
    import operator as op
    # statement examples
    assert pointwise(op.sub, [('seq', [1, 2, 3]), ('seq', [10, 20, 30])], 3) \
        == [('ok', -9), ('ok', -18), ('ok', -27)]
    assert pointwise(op.sub, [('const', 1), ('seq', [10, 20])], 3) \
        == [('ok', -9), ('ok', -19), ('ok', -9)]
    assert zipped(op.add, [('seq', [1, 2, 3]), ('seq', [10, 20])]) \
        == [('ok', 11), ('ok', 22), ('stop',)]
    assert zipped(op.truediv, [('const', 10), ('seq', [1, 0, 4])]) \
        == [('ok', 10.0), ('raise', 'ZeroDivisionError')]
    # sclang: [1, 2, 3] + [10, 20] -> [11, 22, 13]
    assert elementwise(op.add, [[1, 2, 3], [10, 20]]) == ('ok', [11, 22, 13])
    # [[1, 2], 3] * [10, 20, 30] -> [[10, 20], 60, [30, 60]]
    assert elementwise(op.mul, [[[1, 2], 3], [10, 20, 30]]) \
        == ('ok', [[10, 20], 60, [30, 60]])
    assert elementwise(op.sub, [1, [10, (20, 30)]]) == ('ok', [-9, [-19, -29]])
    assert elementwise(max, [[1, 5, 9], [2, 6], 4]) == ('ok', [4, 6, 9])
    assert elementwise(op.truediv, [[1, 2], [0, 'a']]) \
        == ('raise', ['TypeError', 'ZeroDivisionError'])
    assert same([1, (2.0, float('nan'))], (1.0, [2, float('nan')]))
    assert not same([1, 2], [1, 2, 3]) and not same(1, [1])
    assert same(True, 1) and not same(0.5, 0.25)
    assert outcomes_match([('ok', 1), ('raise', ['A', 'B'])],
                          [('ok', 1.0), ('raise', 'B')])
    assert not outcomes_match([('ok', 1), ('stop',)], [('ok', 1)])
    assert outcome_matches(('ok', [1, 2]), ('ok', [7, 8]), False)
    assert not outcome_matches(('ok', [1, 2]), ('ok', 7), False)
    return True


if __name__ == '__main__':
    selftest()
    print('lift_ref ok')
