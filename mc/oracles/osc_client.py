"""What an sc3 message / bundle list must look like on the wire, written from
the statement of property C06 (and the docstring of `send_msg`) - never
imports sc3.  Works together with the strict codec `osc10`.

Documented client coercions (statement of C06):

    None, False, []            -> int32 0
    True                       -> int32 1
    int                        -> int32 (outside the range: no representation)
    float                      -> float32 (nearest)
    str                        -> OSC-string, UTF-8 (NUL inside: no representation)
    '[' and ']'                -> array markers in the type tag string
    bytes-like                 -> blob
    ['/addr', ...]             -> blob holding the encoded message
    [time, [...], ...]         -> blob holding the encoded bundle
    4-tuple                    -> MIDI message (OSC 'm')

No representation (refusal demanded): int outside int32, NUL inside a string
or address, a string that has no UTF-8 encoding (lone surrogate), an empty
address, unbalanced markers, a bundle time that is NaN, infinite or >= 2**32 s.
Left open (refusal or the stated encoding): empty blob, finite float whose
nearest float32 is an infinity, nested bundle earlier than its parent.

`exp_typed_message` / `exp_raw_bundle` describe the plain builders of
`_osclib` (explicit argument types, raw 64-bit timetags) without the client
coercions.

`exp_message` / `exp_bundle` build the *expected decoded structure* (the shape
`osc10.decode` returns) in which three kinds of placeholder may occur:

    Pkt(struct)   a blob whose content must strictly decode to `struct`
    Alt(a, b)     any of the listed values (don't-care between them)
    ANY           anything

and record in a `Verdict` whether the statement demands acceptance, demands
refusal ("values that cannot be represented are refused, never silently
altered") or leaves it open.  `match(expected, observed)` compares."""

import math

from mc.oracles import osc10

TWO32 = 2 ** 32
ACCEPT, EITHER, REFUSE = 'accept', 'either', 'refuse'


class Pkt:
    """Expected blob argument holding an encoded packet."""

    def __init__(self, struct_):
        self.struct = struct_

    def __repr__(self):
        return f'Pkt({self.struct!r})'


class Alt:
    """Set of acceptable values (don't-care between them)."""

    def __init__(self, *vals):
        self.vals = vals

    def __repr__(self):
        return 'Alt' + repr(self.vals)


class AnyValue:
    """Expected value the statement leaves open entirely."""

    def __repr__(self):
        return 'ANY'


ANY = AnyValue()


class Verdict:
    """Accumulates acceptance status; REFUSE dominates EITHER dominates
    ACCEPT.  `reasons` names why a refusal is demanded/allowed."""

    def __init__(self):
        self.status = ACCEPT
        self.reasons = []

    def must_refuse(self, why):
        self.status = REFUSE
        self.reasons.append('refuse:' + why)

    def may_refuse(self, why):
        if self.status == ACCEPT:
            self.status = EITHER
        self.reasons.append('either:' + why)

    def refusal_reasons(self):
        return sorted(set(r[7:] for r in self.reasons
                          if r.startswith('refuse:')))


def timetag_representable(lat):
    """Can the latency be carried by a 64-bit fixed point timetag at all?
    (NaN, infinities and 2**32 seconds or more cannot.)"""
    if lat is None:
        return True
    if isinstance(lat, float) and (math.isnan(lat) or math.isinf(lat)):
        return False
    return lat < TWO32


def is_dyadic(lat):
    """lat * 2**32 is an integer computed without rounding."""
    x = float(lat) * TWO32
    return x == int(x) and abs(x) < 2 ** 53


def exp_timetag(lat, base=0.0):
    """Non-real-time mode.  Outside routines (base 0): absolute from zero.
    Inside a routine running at logical time `base` seconds: base + latency.
    None or a negative latency means "immediately": tag 1 (OSC) or the
    logical time of the send itself (0 at time zero of the score) -
    don't-care here, C07 decides.  Times that are not a multiple of 2**-32 s:
    the statement does not fix the rounding, +-2 units (the C07 tolerance)
    are accepted."""
    if lat is None or lat < 0:
        when, exact = base, is_dyadic(base)
    else:
        if not timetag_representable(lat + base):
            return ANY
        when, exact = lat + base, is_dyadic(lat) and is_dyadic(base)
    t = int(when * TWO32)
    alts = [t] if exact else [x for x in (t, t - 1, t + 1, t - 2, t + 2)
                              if 0 <= x < 2 ** 64]
    if lat is None or lat < 0:
        alts = [x for x in alts if x != 1] + [1]
    return alts[0] if len(alts) == 1 else Alt(*alts)


def utf8_encodable(s):
    try:
        s.encode('utf-8')
        return True
    except UnicodeEncodeError:        # lone surrogates
        return False


def exp_message(msg, vd, base=0.0):
    """Expected decoded structure of the message-shaped list `msg`."""
    addr = msg[0]
    if addr == '':
        vd.must_refuse('empty-address')
    elif not utf8_encodable(addr) or '\x00' in addr:
        vd.must_refuse('unencodable-address')
    toks = []                      # (tag, expected value) / ('[',) / (']',)
    for a in msg[1:]:
        if a is None or a is False:
            toks.append(('i', 0))
        elif a is True:
            toks.append(('i', 1))
        elif isinstance(a, int):
            if not osc10.INT32_MIN <= a <= osc10.INT32_MAX:
                vd.must_refuse('int32-range')
            toks.append(('i', a))
        elif isinstance(a, float):
            if math.isinf(a) or math.isnan(a):
                toks.append(('f', a))
            else:
                try:
                    toks.append(('f', osc10.float32(a)))
                except osc10.OscError:
                    # The nearest float32 is an infinity.  "floats to 32
                    # bits": IEEE rounding gives +-inf, refusing is the other
                    # reading of "cannot be represented".  (Values just above
                    # the largest float32 that still round to it are
                    # representable.)
                    vd.may_refuse('float32-range')
                    toks.append(('f', math.copysign(math.inf, a)))
        elif isinstance(a, str):
            if a == '[':
                toks.append(('[',))
            elif a == ']':
                toks.append((']',))
            else:
                if '\x00' in a:
                    vd.must_refuse('nul-in-string')
                elif not utf8_encodable(a):
                    vd.must_refuse('unencodable-string')
                toks.append(('s', a))
        elif isinstance(a, (bytes, bytearray, memoryview)):
            if len(a) == 0:
                vd.may_refuse('empty-blob')
            toks.append(('b', bytes(a)))
        elif isinstance(a, tuple):
            toks.append(('m', a))
        elif isinstance(a, list):
            if not a:
                toks.append(('i', 0))
            elif isinstance(a[0], str):
                toks.append(('b', Pkt(exp_message(a, vd, base))))
            else:
                toks.append(('b', Pkt(exp_bundle(a, vd, base))))
        else:
            raise ValueError(f'value outside the alphabet: {a!r}')
    args = []
    stack = [args]
    tags = []
    balanced = True
    for t in toks:
        tags.append(t[0])
        if t[0] == '[':
            new = []
            stack[-1].append(new)
            stack.append(new)
        elif t[0] == ']':
            if len(stack) < 2:
                balanced = False
                break
            stack.pop()
        else:
            stack[-1].append(t[1])
    if not balanced or len(stack) != 1:
        vd.must_refuse('unbalanced-brackets')
    return {'type': 'message', 'address': addr, 'tags': ''.join(tags),
            'args': args}


def exp_bundle(bndl, vd, base=0.0):
    """Expected decoded structure of the bundle-shaped list `bndl`."""
    lat = bndl[0]
    if not timetag_representable(lat) or (
            lat is not None and lat >= 0 and
            not timetag_representable(lat + base)):
        vd.must_refuse('timetag-range')
    elements = []
    for e in bndl[1:]:
        if isinstance(e[0], str):
            elements.append(exp_message(e, vd, base))
        else:
            sub = e[0]
            if lat is not None and (sub is None or sub < lat):
                vd.may_refuse('nested-precedes-parent')   # C07 decides
            elements.append(exp_bundle(e, vd, base))
    return {'type': 'bundle', 'timetag': exp_timetag(lat, base),
            'elements': elements}


def exp_typed_message(addr, targs, vd):
    """Expected decoded structure of a message built with the plain OSC
    builder (no client coercions): `targs` is a list of [value, type] with
    type None (inferred: str s, bytes b, int i, float f, bool T/F, 4-tuple m,
    list -> array of inferred items) or one of 'i' 'f' 'd' 's' 'b' 'r' 'm'.
    Booleans: the statement documents True -> 1 / False -> 0 for the client
    and OSC 1.0 has the data-less tags T / F; both are accepted (all booleans
    of one message the same way)."""
    if addr == '':
        vd.must_refuse('empty-address')

    def toks_of(value, typ, bool_as_int):
        if typ is None:
            if isinstance(value, list):
                out = [('[',)]
                for v in value:
                    out += toks_of(v, None, bool_as_int)
                return out + [(']',)]
            if isinstance(value, bool):
                if bool_as_int:
                    return [('i', int(value))]
                return [('T' if value else 'F', value)]
            if isinstance(value, int):
                typ = 'i'
            elif isinstance(value, float):
                typ = 'f'
            elif isinstance(value, str):
                typ = 's'
            elif isinstance(value, (bytes, bytearray, memoryview)):
                typ = 'b'
            elif isinstance(value, tuple):
                typ = 'm'
            else:
                raise ValueError(f'value outside the alphabet: {value!r}')
        if typ == 'i':
            if not osc10.INT32_MIN <= value <= osc10.INT32_MAX:
                vd.must_refuse('int32-range')
            return [('i', value)]
        if typ == 'f':
            try:
                return [('f', osc10.float32(value))]
            except osc10.OscError:
                vd.may_refuse('float32-range')
                return [('f', math.copysign(math.inf, value))]
        if typ == 'd':
            return [('d', float(value))]
        if typ == 'r':
            if not 0 <= value < TWO32:
                vd.must_refuse('rgba-range')
            return [('r', value)]
        if typ == 's':
            if '\x00' in value:
                vd.must_refuse('nul-in-string')
            elif not utf8_encodable(value):
                vd.must_refuse('unencodable-string')
            return [('s', value)]
        if typ == 'b':
            if len(value) == 0:
                vd.may_refuse('empty-blob')
            return [('b', bytes(value))]
        if typ == 'm':
            return [('m', tuple(value))]
        raise ValueError(f'type outside the alphabet: {typ!r}')

    def struct_of(bool_as_int):
        toks = []
        for value, typ in targs:
            toks += toks_of(value, typ, bool_as_int)
        args = []
        stack = [args]
        for t in toks:
            if t[0] == '[':
                new = []
                stack[-1].append(new)
                stack.append(new)
            elif t[0] == ']':
                stack.pop()
            else:
                stack[-1].append(t[1])
        return {'type': 'message', 'address': addr,
                'tags': ''.join(t[0] for t in toks), 'args': args}

    a, b = struct_of(False), struct_of(True)
    return a if a == b else Alt(a, b)


def exp_raw_bundle(bndl, vd):
    """Expected decoded structure of a bundle built with the plain OSC bundle
    builder: [timetag as uint64, element, ...], elements being plain message
    lists [addr, value, ...] (inferred types) or such bundles."""
    tt = bndl[0]
    if not 0 <= tt < 2 ** 64:
        vd.must_refuse('timetag-range')
    elements = []
    for e in bndl[1:]:
        if isinstance(e[0], str):
            elements.append(exp_typed_message(e[0], [[v, None] for v in e[1:]],
                                              vd))
        else:
            elements.append(exp_raw_bundle(e, vd))
    return {'type': 'bundle', 'timetag': tt, 'elements': elements}


def short(x, n=120):
    s = repr(x)
    return s if len(s) <= n else s[:n] + f'...({len(s)} chars)'


def match(exp, obs, path='$'):
    """None if the observed decoded structure is what was expected, else a
    short description of the first difference."""
    if exp is ANY:
        return None
    if isinstance(exp, Alt):
        for v in exp.vals:
            if match(v, obs, path) is None:
                return None
        return f'{path}: {obs!r} not one of {exp.vals!r}'
    if isinstance(exp, Pkt):
        if not isinstance(obs, bytes):
            return f'{path}: expected a blob, got {type(obs).__name__}'
        try:
            sub = osc10.decode(obs)
        except osc10.OscError as e:
            return f'{path}: nested blob is not a conforming packet: {e}'
        return match(exp.struct, sub, path + '.blob')
    if isinstance(exp, dict):
        if not isinstance(obs, dict) or exp['type'] != obs.get('type'):
            return f'{path}: expected a {exp["type"]}, got {short(obs)}'
        for k in exp:
            r = match(exp[k], obs[k], f'{path}.{k}')
            if r:
                return r
        return None
    if isinstance(exp, list):
        if not isinstance(obs, list) or len(exp) != len(obs):
            return f'{path}: expected {len(exp)} items, got {short(obs)}'
        for i, (a, b) in enumerate(zip(exp, obs)):
            r = match(a, b, f'{path}[{i}]')
            if r:
                return r
        return None
    if osc10.same_value(exp, obs):
        return None
    return f'{path}: expected {short(exp)}, got {short(obs)}'


def concrete(x):
    """Expected structure -> encodable structure (first alternative of each
    don't-care, 0 for ANY); used to measure sizes, which do not depend on the
    choice."""
    if x is ANY:
        return 0
    if isinstance(x, Alt):
        return concrete(x.vals[0])
    if isinstance(x, Pkt):
        return osc10.encode(concrete(x.struct))
    if isinstance(x, dict):
        return {k: concrete(v) for k, v in x.items()}
    if isinstance(x, list):
        return [concrete(v) for v in x]
    return x


def selftest():
    enc, T = osc10.encode_message, osc10.Typed
    # The coercion list of the statement, one value of each kind.
    msg = ['/msg', None, True, False, [], ['/msg'], [None, ['/msg']],
           '[', 0.75, 'string', 1, [], ['/msg'], ']', 0.001, b'12345',
           (0, 144, 60, 64)]
    vd = Verdict()
    exp = exp_message(msg, vd)
    assert vd.status == ACCEPT and exp['tags'] == 'iiiibb[fsiib]fbm'
    inner = enc('/msg', [])
    for tt in (0, 1):
        wire = enc('/msg', [0, 1, 0, 0, inner,
                            osc10.encode_bundle(tt, [inner]),
                            [0.75, 'string', 1, 0, inner], 0.001, b'12345',
                            T('m', (0, 144, 60, 64))])
        assert match(exp, osc10.decode(wire)) is None
        assert len(osc10.encode(concrete(exp))) == len(wire)
    # What must not pass: tag-only booleans, doubles, a double-precision
    # value in a float slot, another timetag, a dirty nested blob.
    bad = [
        enc('/msg', [0, True] + [0] * 14),
        enc('/msg', [0, 1, 0, 0, inner, osc10.encode_bundle(2, [inner]),
                     [0.75, 'string', 1, 0, inner], 0.001, b'12345',
                     T('m', (0, 144, 60, 64))]),
        enc('/msg', [0, 1, 0, 0, inner, osc10.encode_bundle(1, [inner]),
                     [0.75, 'string', 1, 0, inner + b'\x00'], 0.001,
                     b'12345', T('m', (0, 144, 60, 64))]),
        enc('/msg', [0, 1, 0, 0, inner, osc10.encode_bundle(1, [inner]),
                     [0.75, 'string', 1, 0, inner], T('d', 0.001), b'12345',
                     T('m', (0, 144, 60, 64))]),
    ]
    for w in bad:
        assert match(exp, osc10.decode(w)) is not None
    # Refusals demanded / left open by the statement.
    for m, status, why in (
            (['/a', 2 ** 31], REFUSE, ['int32-range']),
            (['/a', 'a\x00b'], REFUSE, ['nul-in-string']),
            (['/a', '['], REFUSE, ['unbalanced-brackets']),
            (['/a', ']', '['], REFUSE, ['unbalanced-brackets']),
            (['/a', ['/b', ['/c', -2 ** 31 - 1]]], REFUSE, ['int32-range']),
            (['/a', 1e39], EITHER, []),
            (['/a', b''], EITHER, []),
            (['/a', [0.5, ['/x'], [0.25, ['/y']]]], EITHER, []),
            (['/a', 2 ** 31 - 1, float('inf'), 'ñ', '[', ']'], ACCEPT, [])):
        v = Verdict()
        exp_message(m, v)
        assert (v.status, v.refusal_reasons()) == (status, why), (m, v.status)
    # Bundles: timetags absolute from zero, "immediately" 0 or 1.
    v = Verdict()
    e = exp_bundle([0.5, ['/x'], [1.0, ['/y', None]]], v)
    assert v.status == ACCEPT
    w = osc10.encode_bundle(2 ** 31, [enc('/x'), osc10.encode_bundle(
        2 ** 32, [enc('/y', [0])])])
    assert match(e, osc10.decode(w)) is None
    w2 = osc10.encode_bundle(2 ** 31, [osc10.encode_bundle(
        2 ** 32, [enc('/y', [0])]), enc('/x')])
    assert match(e, osc10.decode(w2)) is not None        # order matters
    v = Verdict()
    e = exp_bundle([-1, ['/x']], v)
    assert match(e, osc10.decode(osc10.encode_bundle(1, [enc('/x')]))) is None
    assert match(e, osc10.decode(osc10.encode_bundle(5, [enc('/x')])))
    e['timetag'] = ANY
    assert match(e, osc10.decode(osc10.encode_bundle(5, [enc('/x')]))) is None
    # Range edge of float32, unencodable strings, empty address, timetags.
    for m, status, why in (
            (['/a', 3.4028235e38], ACCEPT, []),
            (['/a', 3.4028236e38], EITHER, []),
            (['/a', '\ud800'], REFUSE, ['unencodable-string']),
            (['', 1], REFUSE, ['empty-address']),
            (['/a', [4294967296, ['/x']]], REFUSE, ['timetag-range']),
            (['/a', [float('nan'), ['/x']]], REFUSE, ['timetag-range']),
            (['/a', [0.1, ['/x']]], ACCEPT, [])):
        v = Verdict()
        exp_message(m, v)
        assert (v.status, v.refusal_reasons()) == (status, why), (m, v.status)
    v = Verdict()
    e = exp_bundle([0.1, ['/x']], v)
    for tt, ok in ((429496729, True), (429496731, True), (429496732, False)):
        w = osc10.encode_bundle(tt, [enc('/x')])
        assert (match(e, osc10.decode(w)) is None) == ok
    # Inside a routine at logical time 2.5 s: every (nested) timetag is
    # logical time + that bundle's latency.
    v = Verdict()
    e = exp_bundle([0.5, ['/x'], [0.75, ['/y', [None, ['/z']]]]], v, 2.5)
    def mk(a, b_, c):
        return osc10.encode_bundle(a, [enc('/x'), osc10.encode_bundle(
            b_, [enc('/y', [osc10.encode_bundle(c, [enc('/z')])])])])
    u = 2 ** 32
    assert match(e, osc10.decode(mk(3 * u, 3 * u + u // 4, 5 * u // 2))) \
        is None
    assert match(e, osc10.decode(mk(3 * u, 3 * u + u // 4, 1))) is None
    assert match(e, osc10.decode(mk(3 * u, 5 * u + 3 * u // 4, 1)))
    assert match(e, osc10.decode(mk(3 * u, 3 * u + u // 4, 0)))
    # Plain builder: typed arguments, arrays, booleans either way.
    v = Verdict()
    e = exp_typed_message('/t', [[0.1, 'd'], [16909060, 'r'], [True, None],
                                 [[1, ['a']], None]], v)
    assert v.status == ACCEPT
    for w, ok in (
            (enc('/t', [T('d', 0.1), T('r', 16909060), True, [1, ['a']]]), 1),
            (enc('/t', [T('d', 0.1), T('r', 16909060), 1, [1, ['a']]]), 1),
            (enc('/t', [T('f', 0.1), T('r', 16909060), 1, [1, ['a']]]), 0),
            (enc('/t', [T('d', 0.1), T('i', 16909060), 1, [1, ['a']]]), 0)):
        assert (match(e, osc10.decode(w)) is None) == bool(ok)
    v = Verdict()
    exp_typed_message('/t', [[-1, 'r']], v)
    assert v.refusal_reasons() == ['rgba-range']
    v = Verdict()
    e = exp_raw_bundle([2 ** 64 - 1, ['/x', 1], [2 ** 63, ['/y']]], v)
    assert v.status == ACCEPT and match(e, osc10.decode(osc10.encode_bundle(
        2 ** 64 - 1, [enc('/x', [1]), osc10.encode_bundle(
            2 ** 63, [enc('/y')])]))) is None
    v = Verdict()
    exp_raw_bundle([2 ** 64], v)
    assert v.status == REFUSE
    return True


if __name__ == '__main__':
    selftest()
    print('osc_client selftest ok')
