"""What an sc3 message / bundle list must look like on the wire, written from
the statement of property C06 (and the docstring of `send_msg`) - never
imports sc3.  Works together with the strict codec `osc10`.

Documented client coercions (statement of C06):

    None, False, []            -> int32 0
    True                       -> int32 1
    int                        -> int32 (outside the range: no representation)
    float                      -> float32 (nearest)
    str                        -> OSC-string, UTF-8 (NUL inside: no representation)
    '[' and ']'                -> array markers in the type tag string
    bytes-like                 -> blob
    ['/addr', ...]             -> blob holding the encoded message
    [time, [...], ...]         -> blob holding the encoded bundle
    4-tuple                    -> MIDI message (OSC 'm')

`exp_message` / `exp_bundle` build the *expected decoded structure* (the shape
`osc10.decode` returns) in which three kinds of placeholder may occur:

    Pkt(struct)   a blob whose content must strictly decode to `struct`
    Alt(a, b)     any of the listed values (don't-care between them)
    ANY           anything

and record in a `Verdict` whether the statement demands acceptance, demands
refusal ("values that cannot be represented are refused, never silently
altered") or leaves it open.  `match(expected, observed)` compares."""

import math

from mc.oracles import osc10

TWO32 = 2 ** 32
ACCEPT, EITHER, REFUSE = 'accept', 'either', 'refuse'


class Pkt:
    """Expected blob argument holding an encoded packet."""

    def __init__(self, struct_):
        self.struct = struct_

    def __repr__(self):
        return f'Pkt({self.struct!r})'


class Alt:
    """Set of acceptable values (don't-care between them)."""

    def __init__(self, *vals):
        self.vals = vals

    def __repr__(self):
        return 'Alt' + repr(self.vals)


class AnyValue:
    """Expected value the statement leaves open entirely."""

    def __repr__(self):
        return 'ANY'


ANY = AnyValue()


class Verdict:
    """Accumulates acceptance status; REFUSE dominates EITHER dominates
    ACCEPT.  `reasons` names why a refusal is demanded/allowed."""

    def __init__(self):
        self.status = ACCEPT
        self.reasons = []

    def must_refuse(self, why):
        self.status = REFUSE
        self.reasons.append('refuse:' + why)

    def may_refuse(self, why):
        if self.status == ACCEPT:
            self.status = EITHER
        self.reasons.append('either:' + why)

    def refusal_reasons(self):
        return sorted(set(r[7:] for r in self.reasons
                          if r.startswith('refuse:')))


def exp_timetag(lat):
    """Non-real-time mode, outside routines: absolute from zero.  None or a
    negative latency means "immediately": tag 1 (OSC) or 0 (time zero of the
    score) - don't-care here, C07 decides."""
    if lat is None or lat < 0:
        return Alt(0, 1)
    return int(lat * TWO32)        # exact for dyadic latencies


def exp_message(msg, vd):
    """Expected decoded structure of the message-shaped list `msg`."""
    addr = msg[0]
    toks = []                      # (tag, expected value) / ('[',) / (']',)
    for a in msg[1:]:
        if a is None or a is False:
            toks.append(('i', 0))
        elif a is True:
            toks.append(('i', 1))
        elif isinstance(a, int):
            if not osc10.INT32_MIN <= a <= osc10.INT32_MAX:
                vd.must_refuse('int32-range')
            toks.append(('i', a))
        elif isinstance(a, float):
            if math.isinf(a) or math.isnan(a):
                toks.append(('f', a))
            elif abs(a) > osc10.FLOAT32_MAX:
                # "floats to 32 bits": IEEE rounding gives +-inf, refusing is
                # the other reading of "cannot be represented".
                vd.may_refuse('float32-range')
                toks.append(('f', math.copysign(math.inf, a)))
            else:
                toks.append(('f', osc10.float32(a)))
        elif isinstance(a, str):
            if a == '[':
                toks.append(('[',))
            elif a == ']':
                toks.append((']',))
            else:
                if '\x00' in a:
                    vd.must_refuse('nul-in-string')
                toks.append(('s', a))
        elif isinstance(a, (bytes, bytearray, memoryview)):
            if len(a) == 0:
                vd.may_refuse('empty-blob')
            toks.append(('b', bytes(a)))
        elif isinstance(a, tuple):
            toks.append(('m', a))
        elif isinstance(a, list):
            if not a:
                toks.append(('i', 0))
            elif isinstance(a[0], str):
                toks.append(('b', Pkt(exp_message(a, vd))))
            else:
                toks.append(('b', Pkt(exp_bundle(a, vd))))
        else:
            raise ValueError(f'value outside the alphabet: {a!r}')
    args = []
    stack = [args]
    tags = []
    balanced = True
    for t in toks:
        tags.append(t[0])
        if t[0] == '[':
            new = []
            stack[-1].append(new)
            stack.append(new)
        elif t[0] == ']':
            if len(stack) < 2:
                balanced = False
                break
            stack.pop()
        else:
            stack[-1].append(t[1])
    if not balanced or len(stack) != 1:
        vd.must_refuse('unbalanced-brackets')
    return {'type': 'message', 'address': addr, 'tags': ''.join(tags),
            'args': args}


def exp_bundle(bndl, vd):
    """Expected decoded structure of the bundle-shaped list `bndl`."""
    lat = bndl[0]
    elements = []
    for e in bndl[1:]:
        if isinstance(e[0], str):
            elements.append(exp_message(e, vd))
        else:
            sub = e[0]
            if lat is not None and (sub is None or sub < lat):
                vd.may_refuse('nested-precedes-parent')   # C07 decides
            elements.append(exp_bundle(e, vd))
    return {'type': 'bundle', 'timetag': exp_timetag(lat),
            'elements': elements}


def short(x, n=120):
    s = repr(x)
    return s if len(s) <= n else s[:n] + f'...({len(s)} chars)'


def match(exp, obs, path='$'):
    """None if the observed decoded structure is what was expected, else a
    short description of the first difference."""
    if exp is ANY:
        return None
    if isinstance(exp, Alt):
        for v in exp.vals:
            if match(v, obs, path) is None:
                return None
        return f'{path}: {obs!r} not one of {exp.vals!r}'
    if isinstance(exp, Pkt):
        if not isinstance(obs, bytes):
            return f'{path}: expected a blob, got {type(obs).__name__}'
        try:
            sub = osc10.decode(obs)
        except osc10.OscError as e:
            return f'{path}: nested blob is not a conforming packet: {e}'
        return match(exp.struct, sub, path + '.blob')
    if isinstance(exp, dict):
        if not isinstance(obs, dict) or exp['type'] != obs.get('type'):
            return f'{path}: expected a {exp["type"]}, got {short(obs)}'
        for k in exp:
            r = match(exp[k], obs[k], f'{path}.{k}')
            if r:
                return r
        return None
    if isinstance(exp, list):
        if not isinstance(obs, list) or len(exp) != len(obs):
            return f'{path}: expected {len(exp)} items, got {short(obs)}'
        for i, (a, b) in enumerate(zip(exp, obs)):
            r = match(a, b, f'{path}[{i}]')
            if r:
                return r
        return None
    if osc10.same_value(exp, obs):
        return None
    return f'{path}: expected {short(exp)}, got {short(obs)}'


def concrete(x):
    """Expected structure -> encodable structure (first alternative of each
    don't-care, 0 for ANY); used to measure sizes, which do not depend on the
    choice."""
    if x is ANY:
        return 0
    if isinstance(x, Alt):
        return concrete(x.vals[0])
    if isinstance(x, Pkt):
        return osc10.encode(concrete(x.struct))
    if isinstance(x, dict):
        return {k: concrete(v) for k, v in x.items()}
    if isinstance(x, list):
        return [concrete(v) for v in x]
    return x


def selftest():
    enc, T = osc10.encode_message, osc10.Typed
    # The coercion list of the statement, one value of each kind.
    msg = ['/msg', None, True, False, [], ['/msg'], [None, ['/msg']],
           '[', 0.75, 'string', 1, [], ['/msg'], ']', 0.001, b'12345',
           (0, 144, 60, 64)]
    vd = Verdict()
    exp = exp_message(msg, vd)
    assert vd.status == ACCEPT and exp['tags'] == 'iiiibb[fsiib]fbm'
    inner = enc('/msg', [])
    for tt in (0, 1):
        wire = enc('/msg', [0, 1, 0, 0, inner,
                            osc10.encode_bundle(tt, [inner]),
                            [0.75, 'string', 1, 0, inner], 0.001, b'12345',
                            T('m', (0, 144, 60, 64))])
        assert match(exp, osc10.decode(wire)) is None
        assert len(osc10.encode(concrete(exp))) == len(wire)
    # What must not pass: tag-only booleans, doubles, a double-precision
    # value in a float slot, another timetag, a dirty nested blob.
    bad = [
        enc('/msg', [0, True] + [0] * 14),
        enc('/msg', [0, 1, 0, 0, inner, osc10.encode_bundle(2, [inner]),
                     [0.75, 'string', 1, 0, inner], 0.001, b'12345',
                     T('m', (0, 144, 60, 64))]),
        enc('/msg', [0, 1, 0, 0, inner, osc10.encode_bundle(1, [inner]),
                     [0.75, 'string', 1, 0, inner + b'\x00'], 0.001,
                     b'12345', T('m', (0, 144, 60, 64))]),
        enc('/msg', [0, 1, 0, 0, inner, osc10.encode_bundle(1, [inner]),
                     [0.75, 'string', 1, 0, inner], T('d', 0.001), b'12345',
                     T('m', (0, 144, 60, 64))]),
    ]
    for w in bad:
        assert match(exp, osc10.decode(w)) is not None
    # Refusals demanded / left open by the statement.
    for m, status, why in (
            (['/a', 2 ** 31], REFUSE, ['int32-range']),
            (['/a', 'a\x00b'], REFUSE, ['nul-in-string']),
            (['/a', '['], REFUSE, ['unbalanced-brackets']),
            (['/a', ']', '['], REFUSE, ['unbalanced-brackets']),
            (['/a', ['/b', ['/c', -2 ** 31 - 1]]], REFUSE, ['int32-range']),
            (['/a', 1e39], EITHER, []),
            (['/a', b''], EITHER, []),
            (['/a', [0.5, ['/x'], [0.25, ['/y']]]], EITHER, []),
            (['/a', 2 ** 31 - 1, float('inf'), 'ñ', '[', ']'], ACCEPT, [])):
        v = Verdict()
        exp_message(m, v)
        assert (v.status, v.refusal_reasons()) == (status, why), (m, v.status)
    # Bundles: timetags absolute from zero, "immediately" 0 or 1.
    v = Verdict()
    e = exp_bundle([0.5, ['/x'], [1.0, ['/y', None]]], v)
    assert v.status == ACCEPT
    w = osc10.encode_bundle(2 ** 31, [enc('/x'), osc10.encode_bundle(
        2 ** 32, [enc('/y', [0])])])
    assert match(e, osc10.decode(w)) is None
    w2 = osc10.encode_bundle(2 ** 31, [osc10.encode_bundle(
        2 ** 32, [enc('/y', [0])]), enc('/x')])
    assert match(e, osc10.decode(w2)) is not None        # order matters
    v = Verdict()
    e = exp_bundle([-1, ['/x']], v)
    assert match(e, osc10.decode(osc10.encode_bundle(1, [enc('/x')]))) is None
    assert match(e, osc10.decode(osc10.encode_bundle(5, [enc('/x')])))
    e['timetag'] = ANY
    assert match(e, osc10.decode(osc10.encode_bundle(5, [enc('/x')]))) is None
    return True


if __name__ == '__main__':
    selftest()
    print('osc_client selftest ok')
