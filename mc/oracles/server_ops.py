"""scsynth operator numbering (Opcodes.h order, typed from the server source
reference) and the arithmetic meaning of the fused units.  Never imports sc3."""

UNARY = [
    'neg', 'not', 'isNil', 'notNil', 'bitNot', 'abs', 'asFloat', 'asInt',
    'ceil', 'floor', 'frac', 'sign', 'squared', 'cubed', 'sqrt', 'exp',
    'recip', 'midicps', 'cpsmidi', 'midiratio', 'ratiomidi', 'dbamp', 'ampdb',
    'octcps', 'cpsoct', 'log', 'log2', 'log10', 'sin', 'cos', 'tan', 'arcsin',
    'arccos', 'arctan', 'sinh', 'cosh', 'tanh', 'rand', 'rand2', 'linrand',
    'bilinrand', 'sum3rand', 'distort', 'softclip', 'coin', 'digitvalue',
    'silence', 'thru', 'rectwindow', 'hanwindow', 'welchwindow', 'triwindow',
    'ramp', 'scurve']

BINARY = [
    'add', 'sub', 'mul', 'idiv', 'fdiv', 'mod', 'eq', 'ne', 'lt', 'gt', 'le',
    'ge', 'min', 'max', 'bitand', 'bitor', 'bitxor', 'lcm', 'gcd', 'round',
    'roundup', 'trunc', 'atan2', 'hypot', 'hypotx', 'pow', 'shiftleft',
    'shiftright', 'unsignedshift', 'fill', 'ring1', 'ring2', 'ring3', 'ring4',
    'difsqr', 'sumsqr', 'sqrsum', 'sqrdif', 'absdif', 'thresh', 'amclip',
    'scaleneg', 'clip2', 'excess', 'fold2', 'wrap2', 'firstarg', 'randrange',
    'exprandrange']

UN = {n: i for i, n in enumerate(UNARY)}
BIN = {n: i for i, n in enumerate(BINARY)}

# How the client API of a signal object is expected to reach the server:
# python-level spelling -> (arity, server operator name).  Written from the
# SuperCollider operator documentation (UGen/AbstractFunction help).
PY_UNARY = {
    '__neg__': 'neg', 'neg': 'neg', '__abs__': 'abs', 'abs': 'abs',
    '__invert__': 'bitNot', 'bitnot': 'bitNot', 'not_': 'not',
    'as_int': 'asInt', 'as_float': 'asFloat', 'ceil': 'ceil',
    '__ceil__': 'ceil', 'floor': 'floor', '__floor__': 'floor',
    'frac': 'frac', 'sign': 'sign', 'squared': 'squared', 'cubed': 'cubed',
    'sqrt': 'sqrt', 'exp': 'exp', 'reciprocal': 'recip',
    'midicps': 'midicps', 'cpsmidi': 'cpsmidi', 'midiratio': 'midiratio',
    'ratiomidi': 'ratiomidi', 'dbamp': 'dbamp', 'ampdb': 'ampdb',
    'octcps': 'octcps', 'cpsoct': 'cpsoct', 'log': 'log', 'log2': 'log2',
    'log10': 'log10', 'sin': 'sin', 'cos': 'cos', 'tan': 'tan',
    'asin': 'arcsin', 'acos': 'arccos', 'atan': 'arctan', 'sinh': 'sinh',
    'cosh': 'cosh', 'tanh': 'tanh', 'rand': 'rand', 'rand2': 'rand2',
    'linrand': 'linrand', 'bilinrand': 'bilinrand', 'sum3rand': 'sum3rand',
    'distort': 'distort', 'softclip': 'softclip', 'coin': 'coin',
    'rectwindow': 'rectwindow', 'hanwindow': 'hanwindow',
    'welwindow': 'welchwindow', 'triwindow': 'triwindow', 'ramp': 'ramp',
    'scurve': 'scurve'}

PY_BINARY = {
    '__add__': 'add', '__sub__': 'sub', '__mul__': 'mul',
    '__floordiv__': 'idiv', '__truediv__': 'fdiv', '__mod__': 'mod',
    '__pow__': 'pow', 'pow': 'pow', '__lshift__': 'shiftleft',
    'lshift': 'shiftleft', '__rshift__': 'shiftright',
    'rshift': 'shiftright', 'urshift': 'unsignedshift',
    '__and__': 'bitand', 'bitand': 'bitand', '__or__': 'bitor',
    'bitor': 'bitor', '__xor__': 'bitxor', 'bitxor': 'bitxor',
    '__lt__': 'lt', '__le__': 'le', '__gt__': 'gt', '__ge__': 'ge',
    '__eq__': 'eq', '__ne__': 'ne',
    'min': 'min', 'max': 'max', 'lcm': 'lcm', 'gcd': 'gcd', 'round': 'round',
    'roundup': 'roundup', 'trunc': 'trunc', 'atan2': 'atan2',
    'hypot': 'hypot', 'hypotx': 'hypotx', 'ring1': 'ring1', 'ring2': 'ring2',
    'ring3': 'ring3', 'ring4': 'ring4', 'difsqr': 'difsqr',
    'sumsqr': 'sumsqr', 'sqrsum': 'sqrsum', 'sqrdif': 'sqrdif',
    'absdif': 'absdif', 'thresh': 'thresh', 'amclip': 'amclip',
    'scaleneg': 'scaleneg', 'clip2': 'clip2', 'excess': 'excess',
    'fold2': 'fold2', 'wrap2': 'wrap2', 'first_arg': 'firstarg',
    'rrand': 'randrange', 'exprand': 'exprandrange'}
PY_REFLECTED = {
    '__radd__': 'add', '__rsub__': 'sub', '__rmul__': 'mul',
    '__rfloordiv__': 'idiv', '__rtruediv__': 'fdiv', '__rmod__': 'mod',
    '__rpow__': 'pow', '__rlshift__': 'shiftleft',
    '__rrshift__': 'shiftright', '__rand__': 'bitand', '__ror__': 'bitor',
    '__rxor__': 'bitxor'}

RATE = {0: 'scalar', 1: 'control', 2: 'audio', 3: 'demand'}


def selftest():
    assert len(UNARY) == 54 and len(BINARY) == 49
    assert UN['neg'] == 0 and UN['midicps'] == 17 and UN['scurve'] == 53
    assert BIN['add'] == 0 and BIN['fdiv'] == 4 and BIN['min'] == 12
    assert BIN['pow'] == 25 and BIN['clip2'] == 42 and BIN['wrap2'] == 45
    assert BIN['exprandrange'] == 48 and UN['tanh'] == 36
    for v in PY_UNARY.values():
        assert v in UN, v
    for v in list(PY_BINARY.values()) + list(PY_REFLECTED.values()):
        assert v in BIN, v
