"""Argument schemas of the scsynth commands that sc3's client objects emit.

Typed in from the SuperCollider *Server Command Reference* (the tables of each
command: argument order, `int`/`float`/`string`/`bytes`, `N *` repetition,
"optional" tail arguments).  No sc3 import.

    validate(address, targs, decode_blob=None) -> (errors, mentions)

`targs` is the typed argument list of one OSC message as produced by
`mc.oracles.osc10.typed` : [(tag, value), ...] with tags i f s b and arrays as
('[', [(tag, value), ...]).  `errors` is a list of strings (empty = the message
conforms); `mentions` lists every id the message refers to:
{'role': 'node'|'newnode'|'target'|'group'|'buf'|'cbus'|'abus', 'id': int,
'n': int (length of the range, 1 for single ids), 'cmd': address}.

Leniencies (places where the reference is silent or the server coerces):
* positions documented as `float` accept an OSC int as well (scsynth reads
  them with a coercing getter; the reference itself says "float or int" for
  most of them);
* optional completion `bytes` may be absent, or be the integer 0 (the client
  placeholder for "no completion message", sclang does the same);
* control values of /s_new and /n_set may be numbers, bus mapping symbols
  ('c3', 'a4') or [ ] arrays of those (arbitrarily nested: the reference only
  says "array type tags");
* `N *` accepts N = 0.
"""

import re

INT32_MIN = -2 ** 31
INT32_MAX = 2 ** 31 - 1
_BUSMAP = re.compile(r'^([ac])(\d+)$')

# item kinds:
#   ('i', role)    int32
#   ('n', role)    float or int
#   ('s', role)    string
#   ('ctl', None)  int or string (control index or name)
#   ('val', None)  control value (see above)
#   ('M', None)    int count, followed by ('Mn', None) = M numbers
#   ('b', 'completion')  optional completion message
# spec: (fixed, repeated group or None, optional tail list)

_I = 'i'


def _spec(fixed=(), rep=None, opt=()):
    return {'fixed': list(fixed), 'rep': list(rep) if rep else None,
            'opt': list(opt)}


_COMPLETION = ('b', 'completion')

COMMANDS = {
    # --- master controls the helpers use -------------------------------
    '/sync': _spec([('i', None)]),
    '/dumpOSC': _spec([('i', 'code')]),
    '/clearSched': _spec(),
    '/status': _spec(),
    '/notify': _spec([('i', 'flag')], opt=[('i', None)]),
    '/quit': _spec(),
    # --- synth definitions ----------------------------------------------
    '/d_recv': _spec([('blob', None)], opt=[_COMPLETION]),
    '/d_load': _spec([('s', None)], opt=[_COMPLETION]),
    '/d_loadDir': _spec([('s', None)], opt=[_COMPLETION]),
    '/d_free': _spec(rep=[('s', None)]),
    # --- nodes ----------------------------------------------------------
    '/n_free': _spec(rep=[('i', 'node')]),
    '/n_run': _spec(rep=[('i', 'node'), ('i', 'flag')]),
    '/n_set': _spec([('i', 'node')], rep=[('ctl', None), ('val', None)]),
    '/n_setn': _spec([('i', 'node')],
                     rep=[('ctl', None), ('M', None), ('Mn', None)]),
    '/n_fill': _spec([('i', 'node')],
                     rep=[('ctl', None), ('i', 'count'), ('n', None)]),
    '/n_map': _spec([('i', 'node')], rep=[('ctl', None), ('i', 'cbus1')]),
    '/n_mapn': _spec([('i', 'node')],
                     rep=[('ctl', None), ('i', 'cbus'), ('i', 'buscount')]),
    '/n_mapa': _spec([('i', 'node')], rep=[('ctl', None), ('i', 'abus1')]),
    '/n_mapan': _spec([('i', 'node')],
                      rep=[('ctl', None), ('i', 'abus'), ('i', 'buscount')]),
    '/n_before': _spec(rep=[('i', 'node'), ('i', 'node')]),
    '/n_after': _spec(rep=[('i', 'node'), ('i', 'node')]),
    '/n_query': _spec(rep=[('i', 'node')]),
    '/n_trace': _spec(rep=[('i', 'node')]),
    '/n_order': _spec([('i', 'addaction3'), ('i', 'target')],
                      rep=[('i', 'node')]),
    # --- synths ---------------------------------------------------------
    '/s_new': _spec([('s', 'defname'), ('i', 'newnode'), ('i', 'addaction'),
                     ('i', 'target')], rep=[('ctl', None), ('val', None)]),
    '/s_get': _spec([('i', 'node')], rep=[('ctl', None)]),
    '/s_getn': _spec([('i', 'node')], rep=[('ctl', None), ('i', 'count')]),
    '/s_noid': _spec(rep=[('i', 'node')]),
    # --- groups ---------------------------------------------------------
    '/g_new': _spec(rep=[('i', 'newnode'), ('i', 'addaction'),
                         ('i', 'target')]),
    '/p_new': _spec(rep=[('i', 'newnode'), ('i', 'addaction'),
                         ('i', 'target')]),
    '/g_head': _spec(rep=[('i', 'group'), ('i', 'node')]),
    '/g_tail': _spec(rep=[('i', 'group'), ('i', 'node')]),
    '/g_freeAll': _spec(rep=[('i', 'group')]),
    '/g_deepFree': _spec(rep=[('i', 'group')]),
    '/g_dumpTree': _spec(rep=[('i', 'group'), ('i', 'flag')]),
    '/g_queryTree': _spec(rep=[('i', 'group'), ('i', 'flag')]),
    # --- buffers --------------------------------------------------------
    '/b_alloc': _spec([('i', 'buf'), ('i', 'frames')],
                      opt=[('i', 'channels'), _COMPLETION]),
    '/b_allocRead': _spec([('i', 'buf'), ('s', 'path')],
                          opt=[('i', 'start'), ('i', 'nframes'),
                               _COMPLETION]),
    '/b_allocReadChannel': _spec([('i', 'buf'), ('s', 'path'),
                                  ('i', 'start'), ('i', 'nframes')],
                                 rep=[('i', 'channel')], opt=[_COMPLETION]),
    '/b_read': _spec([('i', 'buf'), ('s', 'path')],
                     opt=[('i', 'start'), ('i', 'nframes'), ('i', 'start'),
                          ('i', 'flag'), _COMPLETION]),
    '/b_readChannel': _spec([('i', 'buf'), ('s', 'path'), ('i', 'start'),
                             ('i', 'nframes'), ('i', 'start'),
                             ('i', 'flag')],
                            rep=[('i', 'channel')], opt=[_COMPLETION]),
    '/b_write': _spec([('i', 'buf'), ('s', 'path'), ('s', 'header'),
                       ('s', 'sample')],
                      opt=[('i', 'nframes'), ('i', 'start'), ('i', 'flag'),
                           _COMPLETION]),
    '/b_free': _spec([('i', 'buf')], opt=[_COMPLETION]),
    '/b_zero': _spec([('i', 'buf')], opt=[_COMPLETION]),
    '/b_close': _spec([('i', 'buf')], opt=[_COMPLETION]),
    '/b_set': _spec([('i', 'buf')], rep=[('i', 'index'), ('n', None)]),
    '/b_setn': _spec([('i', 'buf')],
                     rep=[('i', 'index'), ('M', None), ('Mn', None)]),
    '/b_fill': _spec([('i', 'buf')],
                     rep=[('i', 'index'), ('i', 'count'), ('n', None)]),
    '/b_gen': None,   # handled by _validate_b_gen
    '/b_query': _spec(rep=[('i', 'buf')]),
    '/b_get': _spec([('i', 'buf')], rep=[('i', 'index')]),
    '/b_getn': _spec([('i', 'buf')], rep=[('i', 'index'), ('i', 'count')]),
    # --- control buses --------------------------------------------------
    '/c_set': _spec(rep=[('i', 'cbus1'), ('n', None)]),
    '/c_setn': _spec(rep=[('i', 'cbusM'), ('M', None), ('Mn', None)]),
    '/c_fill': _spec(rep=[('i', 'cbus'), ('i', 'buscount'), ('n', None)]),
    '/c_get': _spec(rep=[('i', 'cbus1')]),
    '/c_getn': _spec(rep=[('i', 'cbus'), ('i', 'buscount')]),
}

# /b_gen sub-commands (reference section "Buffer Fill Commands")
_GEN = {
    'sine1': _spec([('i', 'flags')], rep=[('n', None)]),
    'sine2': _spec([('i', 'flags')], rep=[('n', None), ('n', None)]),
    'sine3': _spec([('i', 'flags')],
                   rep=[('n', None), ('n', None), ('n', None)]),
    'cheby': _spec([('i', 'flags')], rep=[('n', None)]),
    'copy': _spec([('i', 'index'), ('i', 'buf'), ('i', 'index'),
                   ('i', 'count-1')]),
    # fill commands defined by the standard plug-ins (BufGen: new peak value;
    # PartConv help file: source buffer number, fft size)
    'normalize': _spec(opt=[('n', None)]),
    'wnormalize': _spec(opt=[('n', None)]),
    'PreparePartConv': _spec([('i', 'buf'), ('i', 'count')]),
}


class _Cur:
    def __init__(self, targs):
        self.a = list(targs)
        self.i = 0

    def left(self):
        return len(self.a) - self.i

    def peek(self):
        return self.a[self.i]

    def take(self):
        x = self.a[self.i]
        self.i += 1
        return x


def _is_int(t):
    return t[0] == 'i' and isinstance(t[1], int) and \
        not isinstance(t[1], bool) and INT32_MIN <= t[1] <= INT32_MAX


def _is_num(t):
    return _is_int(t) or (t[0] == 'f' and isinstance(t[1], float))


def _val_ok(t, mentions, cmd):
    """control value: number | bus map symbol | array of values"""
    if _is_num(t):
        return True
    if t[0] == 's':
        m = _BUSMAP.match(t[1])
        if not m:
            return False
        mentions.append({'role': 'cbus' if m.group(1) == 'c' else 'abus',
                         'id': int(m.group(2)), 'n': 1, 'cmd': cmd})
        return True
    if t[0] == '[':
        return all(_val_ok(e, mentions, cmd) for e in t[1])
    return False


def _take_item(cur, item, errors, mentions, cmd, pos_name, pending):
    kind, role = item
    if kind == 'Mn':
        m = pending.pop('M')
        if cur.left() < m:
            errors.append(f'{cmd}: count says {m} values, only '
                          f'{cur.left()} follow')
            return False
        for k in range(m):
            t = cur.take()
            if not _is_num(t):
                errors.append(f'{cmd}: value {k} of {m} must be a number, '
                              f'got {t!r}')
                return False
        return True
    if cur.left() == 0:
        errors.append(f'{cmd}: missing {pos_name}')
        return False
    t = cur.take()
    if kind == 'i':
        if not _is_int(t):
            errors.append(f'{cmd}: {pos_name} must be int32, got {t!r}')
            return False
        v = t[1]
        if role in ('node', 'target', 'group', 'newnode', 'buf'):
            mentions.append({'role': role, 'id': v, 'n': 1, 'cmd': cmd})
            if role == 'buf' and v < 0:
                errors.append(f'{cmd}: negative buffer number {v}')
        elif role in ('cbus1', 'abus1'):
            mentions.append({'role': role[:-1], 'id': v, 'n': 1, 'cmd': cmd})
        elif role in ('cbus', 'abus', 'cbusM'):
            pending['bus'] = {'role': role[:4], 'id': v, 'n': None,
                              'cmd': cmd}
            mentions.append(pending['bus'])
        elif role == 'buscount':
            if v < 0:
                errors.append(f'{cmd}: negative count {v}')
            if pending.get('bus') is not None:
                pending['bus']['n'] = v
                pending['bus'] = None
        elif role == 'addaction':
            if not 0 <= v <= 4:
                errors.append(f'{cmd}: add action {v} not in 0..4')
        elif role == 'addaction3':
            if not 0 <= v <= 3:
                errors.append(f'{cmd}: add action {v} not in 0..3')
        elif role == 'flag':
            if v not in (0, 1):
                errors.append(f'{cmd}: flag {v} not 0/1')
        elif role in ('count', 'frames', 'channels'):
            if v < 0:
                errors.append(f'{cmd}: negative {role} {v}')
        return True
    if kind == 'n':
        if not _is_num(t):
            errors.append(f'{cmd}: {pos_name} must be float or int, '
                          f'got {t!r}')
            return False
        return True
    if kind == 's':
        if t[0] != 's':
            errors.append(f'{cmd}: {pos_name} must be string, got {t!r}')
            return False
        return True
    if kind == 'blob':
        if t[0] != 'b':
            errors.append(f'{cmd}: {pos_name} must be bytes, got {t!r}')
            return False
        return True
    if kind == 'ctl':
        if not (_is_int(t) or t[0] == 's'):
            errors.append(f'{cmd}: {pos_name} (control) must be int or '
                          f'string, got {t!r}')
            return False
        return True
    if kind == 'val':
        if not _val_ok(t, mentions, cmd):
            errors.append(f'{cmd}: {pos_name} is not a control value: '
                          f'{t!r}')
            return False
        return True
    if kind == 'M':
        if not _is_int(t) or t[1] < 0:
            errors.append(f'{cmd}: {pos_name} (count) must be int >= 0, '
                          f'got {t!r}')
            return False
        pending['M'] = t[1]
        if pending.get('bus') is not None:
            pending['bus']['n'] = t[1]
            pending['bus'] = None
        return True
    raise AssertionError(item)


def _completion(t, errors, mentions, cmd, decode_blob):
    if t[0] == 'i' and t[1] == 0:
        return                      # client placeholder for "none"
    if t[0] != 'b':
        errors.append(f'{cmd}: completion message must be bytes, got {t!r}')
        return
    if decode_blob is None:
        return
    try:
        inner = decode_blob(t[1])
    except Exception as e:          # not a well-formed OSC packet
        errors.append(f'{cmd}: completion blob is not an OSC packet: {e}')
        return
    for addr, targs in inner:
        e2, m2 = validate(addr, targs, decode_blob)
        errors.extend(f'{cmd} completion> {x}' for x in e2)
        for m in m2:
            m = dict(m)
            m['nested_in'] = cmd
            mentions.append(m)


def _run_spec(cmd, spec, cur, errors, mentions, decode_blob):
    pending = {}
    for k, item in enumerate(spec['fixed']):
        if not _take_item(cur, item, errors, mentions, cmd,
                          f'argument {cur.i} ({item[1] or item[0]})',
                          pending):
            return
    opt = spec['opt']
    rep = spec['rep']
    tail_completion = None
    if rep is not None:
        if opt:     # N * ints then an optional completion message
            if cur.left() and cur.a[-1][0] == 'b':
                tail_completion = cur.a.pop()
        while cur.left() > 0:
            if cur.left() < len([i for i in rep if i[0] != 'Mn']):
                errors.append(f'{cmd}: incomplete argument group at '
                              f'argument {cur.i}: {cur.a[cur.i:]!r}')
                return
            for item in rep:
                if not _take_item(cur, item, errors, mentions, cmd,
                                  f'argument {cur.i} ({item[1] or item[0]})',
                                  pending):
                    return
        if tail_completion is not None:
            _completion(tail_completion, errors, mentions, cmd, decode_blob)
        return
    for item in opt:
        if cur.left() == 0:
            break
        if item == _COMPLETION:
            _completion(cur.take(), errors, mentions, cmd, decode_blob)
        elif not _take_item(cur, item, errors, mentions, cmd,
                            f'argument {cur.i} ({item[1] or item[0]})',
                            pending):
            return
    if cur.left() > 0:
        errors.append(f'{cmd}: {cur.left()} argument(s) too many: '
                      f'{cur.a[cur.i:]!r}')


def _validate_b_gen(cur, errors, mentions, decode_blob):
    cmd = '/b_gen'
    pending = {}
    if not _take_item(cur, ('i', 'buf'), errors, mentions, cmd,
                      'argument 0 (buf)', pending):
        return
    if cur.left() == 0 or cur.peek()[0] != 's':
        errors.append('/b_gen: argument 1 must be the command name string')
        return
    name = cur.take()[1]
    spec = _GEN.get(name)
    if spec is None:        # plug-in defined fill command: arguments free
        return
    _run_spec(f'/b_gen {name}', spec, cur, errors, mentions, decode_blob)
    for m in mentions:
        if m['cmd'].startswith('/b_gen '):
            m['cmd'] = '/b_gen'


def validate(address, targs, decode_blob=None):
    """-> (errors, mentions) for one message."""
    errors = []
    mentions = []
    if address not in COMMANDS:
        return [f'{address}: not a command of the server command '
                f'reference known to this oracle'], mentions
    cur = _Cur(targs)
    if address == '/b_gen':
        _validate_b_gen(cur, errors, mentions, decode_blob)
    else:
        _run_spec(address, COMMANDS[address], cur, errors, mentions,
                  decode_blob)
    for m in mentions:
        if m.get('n') is None:
            m['n'] = 1
    return errors, mentions


def selftest():
    def ok(addr, targs, **kw):
        e, m = validate(addr, targs, **kw)
        assert not e, (addr, targs, e)
        return m

    def bad(addr, targs):
        e, _ = validate(addr, targs)
        assert e, (addr, targs)

    i = lambda v: ('i', v)
    f = lambda v: ('f', v)
    s = lambda v: ('s', v)
    # examples straight from the reference text
    m = ok('/s_new', [s('default'), i(1001), i(1), i(1000), s('freq'),
                      i(440), s('amp'), ('[', [f(0.5), f(0.25)])])
    assert [(x['role'], x['id']) for x in m] == [('newnode', 1001),
                                                 ('target', 1000)]
    m = ok('/s_new', [s('d'), i(-1), i(0), i(1), s('in'), s('c3')])
    assert ('cbus', 3) in [(x['role'], x['id']) for x in m]
    bad('/s_new', [s('d'), i(1001), i(5), i(1)])            # add action 5
    bad('/s_new', [i(1001), s('d'), i(0), i(1)])            # order
    bad('/s_new', [s('d'), i(1001), i(0), i(1), s('freq')])  # dangling ctl
    bad('/s_new', [s('d'), i(1001), i(0), i(1), s('f'), s('gate')])
    ok('/g_new', [i(1000), i(0), i(1)])
    ok('/g_new', [i(1000), i(0), i(1), i(1001), i(3), i(1000)])
    bad('/g_new', [i(1000), i(0)])
    bad('/g_new', [i(1000), f(0.0), i(1)])
    ok('/n_free', [i(1000)])
    bad('/n_free', [s('x')])
    ok('/n_set', [i(1000), s('freq'), f(440.0), i(2), i(1)])
    bad('/n_set', [i(1000), f(1.0), i(1)])                  # ctl is float
    bad('/n_set', [i(1000), ('[', [s('a'), i(1)])])          # array as ctl
    ok('/n_setn', [i(1000), s('f'), i(3), i(1), i(2), i(3), i(4), i(1),
                   f(0.5)])
    bad('/n_setn', [i(1000), s('f'), i(3), i(1), i(2)])
    ok('/n_fill', [i(1000), s('f'), i(2), f(0.5)])
    bad('/n_fill', [i(1000), s('f'), f(0.5), i(2)])
    m = ok('/n_mapn', [i(1000), i(0), i(4), i(2)])
    assert {'role': 'cbus', 'id': 4, 'n': 2, 'cmd': '/n_mapn'} in m
    ok('/n_map', [i(1000), s('freq'), i(-1)])
    ok('/n_before', [i(1001), i(1000)])
    bad('/n_before', [i(1001)])
    ok('/n_run', [i(1000), i(0)])
    bad('/n_run', [i(1000), i(2)])
    ok('/n_order', [i(0), i(1), i(1000), i(1001)])
    bad('/n_order', [i(4), i(1), i(1000)])
    ok('/b_alloc', [i(0), i(1024)])
    ok('/b_alloc', [i(0), i(1024), i(2)])
    ok('/b_alloc', [i(0), i(1024), i(2), i(0)])
    ok('/b_alloc', [i(0), i(1024), i(2), ('b', b'xxxx')])
    bad('/b_alloc', [i(0), i(1024), i(2), i(7)])
    bad('/b_alloc', [i(0), i(1024), i(2), i(0), i(0)])
    bad('/b_alloc', [i(0)])
    ok('/b_free', [i(3)])
    ok('/b_free', [i(3), i(0)])
    bad('/b_free', [])
    ok('/b_allocRead', [i(0), s('/tmp/x.wav'), i(0), i(-1)])
    ok('/b_allocReadChannel', [i(0), s('p'), i(0), i(-1), i(0), i(1),
                               ('b', b'')])
    ok('/b_set', [i(0), i(3), f(0.5)])
    bad('/b_set', [i(0), f(3.0), f(0.5)])
    ok('/b_setn', [i(0), i(0), i(2), f(0.5), f(0.25)])
    ok('/b_fill', [i(0), i(0), i(4), f(0.5)])
    m = ok('/b_gen', [i(1), s('copy'), i(0), i(0), i(0), i(-1)])
    assert [(x['role'], x['id']) for x in m] == [('buf', 1), ('buf', 0)]
    ok('/b_gen', [i(1), s('sine1'), i(7), f(1.0), f(0.5)])
    ok('/b_gen', [i(1), s('normalize'), f(0.5)])
    ok('/b_gen', [i(1), s('wnormalize')])
    m = ok('/b_gen', [i(1), s('PreparePartConv'), i(2), i(2048)])
    assert [(x['role'], x['id']) for x in m] == [('buf', 1), ('buf', 2)]
    bad('/b_gen', [i(1), s('PreparePartConv'), f(2.0), i(2048)])
    bad('/b_gen', [i(1), i(7)])
    m = ok('/c_set', [i(0), f(0.5), i(1), i(2)])
    assert [(x['role'], x['id'], x['n']) for x in m] == [('cbus', 0, 1),
                                                         ('cbus', 1, 1)]
    m = ok('/c_setn', [i(4), i(2), f(1.0), f(2.0)])
    assert [(x['role'], x['id'], x['n']) for x in m] == [('cbus', 4, 2)]
    m = ok('/c_fill', [i(4), i(2), f(0.5)])
    assert [(x['role'], x['id'], x['n']) for x in m] == [('cbus', 4, 2)]
    bad('/c_fill', [i(4), f(0.5), i(2)])
    bad('/c_setn', [i(4), i(3), f(1.0)])
    bad('/nope', [])
    # nested completion message
    m = ok('/b_alloc', [i(2), i(8), i(1), ('b', b'blob')],
           decode_blob=lambda b: [('/b_query', [i(2)])])
    assert [(x['role'], x['id']) for x in m] == [('buf', 2), ('buf', 2)]
    e, _ = validate('/b_alloc', [i(2), i(8), i(1), ('b', b'blob')],
                    decode_blob=lambda b: [('/b_query', [s('x')])])
    assert e
    return True


if __name__ == '__main__':
    selftest()
    print('server_cmds selftest ok')
