"""The unit zoo of C02: every constructor (class, rate method) of the unit
generator classes the library installs, as a literal table (taken once from
sc3.synth.ugens.installed_ugens of the unchanged tree; never imports sc3), and
the alphabet of argument values a zoo case puts into the parameters that have
no default.

A zoo case is plain data {'zoo': 1, 'cls': C, 'm': method, 'req': letters,
'ov': [[index, letter], ...], 'tagbase': int}: `req` gives one letter per
parameter without default (in signature order), `ov` overrides the parameters
at the given positions whether they have a default or not.  Letters:

  A  an audio-rate signal            K  a control-rate signal
  C  a float constant (a tag)        I  the integer 2
  L  a list of two audio signals     D  a demand-rate unit
  B  a local buffer                  F  an FFT chain
  S  a string                        N  NaN

The statement decides little about one arbitrary constructor call, so the
oracle is the general part only: an exception and no bytes, or bytes that
parse strictly as one definition with intact references, no NaN constant,
tiled control slots, and which the library's own reader accepts and
describes like the independent decoding."""

ALPHABET = 'AKCILDBFSN'
# words for the default-less parameters while another parameter is overridden
OVERRIDE_BASES = 'AK'
# letters put into every parameter after the first one
LATER_LETTERS = 'NSLK'
# letters of the first parameter while a later one is NaN
FIRST_WITH_NAN = 'DKA'

# parameters without default: all combinations up to this many, beyond it only
# the uniform words (AAA.., KKK.., ...)
FULL_PRODUCT_UP_TO = 2

# Disagreements found in these classes get a kind of their own (suffix), so
# that the smallest case of a kind, which is all the runner keeps, of a known
# finding in one class cannot hide a new defect in another class.
KIND_GROUP = {
    'BeatTrack2': 'BeatTrack2', 'SendPeakRMS': 'SendPeakRMS',
    'AmpComp': 'AmpComp', 'AmpCompA': 'AmpComp',
    'Duty': 'Duty', 'TDuty': 'Duty',
    'Control': 'controls', 'TrigControl': 'controls',
    'AudioControl': 'controls', 'LagControl': 'controls',
}

ZOO = [
    ('A2K', 'kr'), ('APF', 'ar'), ('APF', 'kr'), ('AllpassC', 'ar'),
    ('AllpassC', 'kr'), ('AllpassL', 'ar'), ('AllpassL', 'kr'),
    ('AllpassN', 'ar'), ('AllpassN', 'kr'), ('AmpComp', 'ar'),
    ('AmpComp', 'kr'), ('AmpComp', 'ir'), ('AmpCompA', 'ar'),
    ('AmpCompA', 'kr'), ('AmpCompA', 'ir'), ('Amplitude', 'ar'),
    ('Amplitude', 'kr'), ('AudioControl', 'ar'), ('BAllPass', 'ar'),
    ('BBandPass', 'ar'), ('BBandStop', 'ar'), ('BHiPass', 'ar'),
    ('BHiPass4', 'ar'), ('BHiShelf', 'ar'), ('BLowPass', 'ar'),
    ('BLowPass4', 'ar'), ('BLowShelf', 'ar'), ('BPF', 'ar'), ('BPF', 'kr'),
    ('BPZ2', 'ar'), ('BPZ2', 'kr'), ('BPeakEQ', 'ar'), ('BRF', 'ar'),
    ('BRF', 'kr'), ('BRZ2', 'ar'), ('BRZ2', 'kr'), ('Balance2', 'ar'),
    ('Balance2', 'kr'), ('Ball', 'ar'), ('Ball', 'kr'), ('BeatTrack', 'kr'),
    ('BeatTrack2', 'kr'), ('BiPanB2', 'ar'), ('BiPanB2', 'kr'),
    ('BinaryOpUGen', 'new'), ('Blip', 'ar'), ('Blip', 'kr'),
    ('BlockSize', 'ir'), ('BrownNoise', 'ar'), ('BrownNoise', 'kr'),
    ('BufAllpassC', 'ar'), ('BufAllpassL', 'ar'), ('BufAllpassN', 'ar'),
    ('BufChannels', 'kr'), ('BufChannels', 'ir'), ('BufCombC', 'ar'),
    ('BufCombL', 'ar'), ('BufCombN', 'ar'), ('BufDelayC', 'ar'),
    ('BufDelayC', 'kr'), ('BufDelayL', 'ar'), ('BufDelayL', 'kr'),
    ('BufDelayN', 'ar'), ('BufDelayN', 'kr'), ('BufDur', 'kr'),
    ('BufDur', 'ir'), ('BufFrames', 'kr'), ('BufFrames', 'ir'),
    ('BufInfoUGenBase', 'kr'), ('BufInfoUGenBase', 'ir'),
    ('BufRateScale', 'kr'), ('BufRateScale', 'ir'), ('BufRd', 'ar'),
    ('BufRd', 'kr'), ('BufSampleRate', 'kr'), ('BufSampleRate', 'ir'),
    ('BufSamples', 'kr'), ('BufSamples', 'ir'), ('BufWr', 'ar'),
    ('BufWr', 'kr'), ('COsc', 'ar'), ('COsc', 'kr'), ('Changed', 'ar'),
    ('Changed', 'kr'), ('CheckBadValues', 'ar'), ('CheckBadValues', 'kr'),
    ('ClearBuf', 'new'), ('Clip', 'ar'), ('Clip', 'kr'), ('Clip', 'ir'),
    ('ClipNoise', 'ar'), ('ClipNoise', 'kr'), ('CoinGate', 'ar'),
    ('CoinGate', 'kr'), ('CombC', 'ar'), ('CombC', 'kr'), ('CombL', 'ar'),
    ('CombL', 'kr'), ('CombN', 'ar'), ('CombN', 'kr'), ('Compander', 'ar'),
    ('CompanderD', 'ar'), ('Control', 'kr'), ('Control', 'ir'),
    ('ControlDur', 'ir'), ('ControlRate', 'ir'), ('Convolution', 'ar'),
    ('Convolution2', 'ar'), ('Convolution2L', 'ar'), ('Convolution3', 'ar'),
    ('Convolution3', 'kr'), ('Crackle', 'ar'), ('Crackle', 'kr'),
    ('CuspL', 'ar'), ('CuspN', 'ar'), ('DC', 'ar'), ('DC', 'kr'),
    ('Dbrown', 'dr'), ('Dbufrd', 'dr'), ('Dbufwr', 'dr'), ('Dconst', 'dr'),
    ('Decay', 'ar'), ('Decay', 'kr'), ('Decay2', 'ar'), ('Decay2', 'kr'),
    ('DecodeB2', 'ar'), ('DecodeB2', 'kr'), ('DegreeToKey', 'ar'),
    ('DegreeToKey', 'kr'), ('DelTapRd', 'ar'), ('DelTapRd', 'kr'),
    ('DelTapWr', 'ar'), ('DelTapWr', 'kr'), ('Delay1', 'ar'),
    ('Delay1', 'kr'), ('Delay2', 'ar'), ('Delay2', 'kr'), ('DelayC', 'ar'),
    ('DelayC', 'kr'), ('DelayL', 'ar'), ('DelayL', 'kr'), ('DelayN', 'ar'),
    ('DelayN', 'kr'), ('Demand', 'ar'), ('Demand', 'kr'),
    ('DemandEnvGen', 'ar'), ('DemandEnvGen', 'kr'), ('DetectIndex', 'ar'),
    ('DetectIndex', 'kr'), ('DetectSilence', 'ar'), ('DetectSilence', 'kr'),
    ('Dgeom', 'dr'), ('Dibrown', 'dr'), ('DiskIn', 'ar'), ('DiskOut', 'ar'),
    ('Diwhite', 'dr'), ('Done', 'kr'), ('Dpoll', 'dr'), ('Drand', 'dr'),
    ('Dreset', 'dr'), ('Dseq', 'dr'), ('Dser', 'dr'), ('Dseries', 'dr'),
    ('Dshuf', 'dr'), ('Dstutter', 'dr'), ('Dswitch', 'dr'),
    ('Dswitch1', 'dr'), ('Dunique', 'dr'), ('Dust', 'ar'), ('Dust', 'kr'),
    ('Dust2', 'ar'), ('Dust2', 'kr'), ('Duty', 'ar'), ('Duty', 'kr'),
    ('Dwhite', 'dr'), ('Dwrand', 'dr'), ('Dxrand', 'dr'), ('DynKlang', 'ar'),
    ('DynKlang', 'kr'), ('DynKlank', 'ar'), ('DynKlank', 'kr'),
    ('EnvGen', 'ar'), ('EnvGen', 'kr'), ('ExpRand', 'new'), ('FBSineC', 'ar'),
    ('FBSineL', 'ar'), ('FBSineN', 'ar'), ('FFT', 'kr'),
    ('FFTTrigger', 'new'), ('FOS', 'ar'), ('FOS', 'kr'), ('FSinOsc', 'ar'),
    ('FSinOsc', 'kr'), ('Fold', 'ar'), ('Fold', 'kr'), ('Fold', 'ir'),
    ('Formant', 'ar'), ('Formlet', 'ar'), ('Formlet', 'kr'), ('Free', 'kr'),
    ('FreeSelf', 'kr'), ('FreeSelfWhenDone', 'kr'), ('FreeVerb', 'ar'),
    ('FreeVerb2', 'ar'), ('FreqShift', 'ar'), ('GVerb', 'ar'), ('Gate', 'ar'),
    ('Gate', 'kr'), ('GbmanL', 'ar'), ('GbmanN', 'ar'), ('Gendy1', 'ar'),
    ('Gendy1', 'kr'), ('Gendy2', 'ar'), ('Gendy2', 'kr'), ('Gendy3', 'ar'),
    ('Gendy3', 'kr'), ('GrainBuf', 'ar'), ('GrainFM', 'ar'),
    ('GrainIn', 'ar'), ('GrainSin', 'ar'), ('GrayNoise', 'ar'),
    ('GrayNoise', 'kr'), ('HPF', 'ar'), ('HPF', 'kr'), ('HPZ1', 'ar'),
    ('HPZ1', 'kr'), ('HPZ2', 'ar'), ('HPZ2', 'kr'), ('Hasher', 'ar'),
    ('Hasher', 'kr'), ('HenonC', 'ar'), ('HenonL', 'ar'), ('HenonN', 'ar'),
    ('Hilbert', 'ar'), ('HilbertFIR', 'ar'), ('IEnvGen', 'ar'),
    ('IEnvGen', 'kr'), ('IFFT', 'ar'), ('IFFT', 'kr'), ('IRand', 'new'),
    ('Impulse', 'ar'), ('Impulse', 'kr'), ('In', 'ar'), ('In', 'kr'),
    ('InFeedback', 'ar'), ('InRange', 'ar'), ('InRange', 'kr'),
    ('InRange', 'ir'), ('InRect', 'ar'), ('InRect', 'kr'), ('InTrig', 'kr'),
    ('Index', 'ar'), ('Index', 'kr'), ('IndexInBetween', 'ar'),
    ('IndexInBetween', 'kr'), ('IndexL', 'ar'), ('IndexL', 'kr'),
    ('InfoUGenBase', 'ir'), ('Integrator', 'ar'), ('Integrator', 'kr'),
    ('K2A', 'ar'), ('KeyState', 'kr'), ('KeyTrack', 'kr'), ('Klang', 'ar'),
    ('Klank', 'ar'), ('LFClipNoise', 'ar'), ('LFClipNoise', 'kr'),
    ('LFCub', 'ar'), ('LFCub', 'kr'), ('LFDClipNoise', 'ar'),
    ('LFDClipNoise', 'kr'), ('LFDNoise0', 'ar'), ('LFDNoise0', 'kr'),
    ('LFDNoise1', 'ar'), ('LFDNoise1', 'kr'), ('LFDNoise3', 'ar'),
    ('LFDNoise3', 'kr'), ('LFGauss', 'ar'), ('LFGauss', 'kr'),
    ('LFNoise0', 'ar'), ('LFNoise0', 'kr'), ('LFNoise1', 'ar'),
    ('LFNoise1', 'kr'), ('LFNoise2', 'ar'), ('LFNoise2', 'kr'),
    ('LFPar', 'ar'), ('LFPar', 'kr'), ('LFPulse', 'ar'), ('LFPulse', 'kr'),
    ('LFSaw', 'ar'), ('LFSaw', 'kr'), ('LFTri', 'ar'), ('LFTri', 'kr'),
    ('LPF', 'ar'), ('LPF', 'kr'), ('LPZ1', 'ar'), ('LPZ1', 'kr'),
    ('LPZ2', 'ar'), ('LPZ2', 'kr'), ('Lag', 'ar'), ('Lag', 'kr'),
    ('Lag2', 'ar'), ('Lag2', 'kr'), ('Lag2UD', 'ar'), ('Lag2UD', 'kr'),
    ('Lag3', 'ar'), ('Lag3', 'kr'), ('Lag3UD', 'ar'), ('Lag3UD', 'kr'),
    ('LagControl', 'ar'), ('LagControl', 'kr'), ('LagControl', 'ir'),
    ('LagIn', 'kr'), ('LagUD', 'ar'), ('LagUD', 'kr'), ('LastValue', 'ar'),
    ('LastValue', 'kr'), ('Latch', 'ar'), ('Latch', 'kr'),
    ('LatoocarfianC', 'ar'), ('LatoocarfianL', 'ar'), ('LatoocarfianN', 'ar'),
    ('LeakDC', 'ar'), ('LeakDC', 'kr'), ('LeastChange', 'ar'),
    ('LeastChange', 'kr'), ('Limiter', 'ar'), ('LinCongC', 'ar'),
    ('LinCongL', 'ar'), ('LinCongN', 'ar'), ('LinExp', 'ar'),
    ('LinExp', 'kr'), ('LinLin', 'ar'), ('LinLin', 'kr'), ('LinPan2', 'ar'),
    ('LinPan2', 'kr'), ('LinRand', 'new'), ('LinSelectX', 'ar'),
    ('LinSelectX', 'kr'), ('LinXFade2', 'ar'), ('LinXFade2', 'kr'),
    ('Line', 'ar'), ('Line', 'kr'), ('Linen', 'kr'), ('ListDUGen', 'dr'),
    ('LocalBuf', 'new'), ('LocalIn', 'ar'), ('LocalIn', 'kr'),
    ('LocalOut', 'ar'), ('LocalOut', 'kr'), ('Logistic', 'ar'),
    ('Logistic', 'kr'), ('LorenzL', 'ar'), ('Loudness', 'kr'), ('MFCC', 'kr'),
    ('MantissaMask', 'ar'), ('MantissaMask', 'kr'), ('MaxLocalBufs', 'new'),
    ('Median', 'ar'), ('Median', 'kr'), ('MidEQ', 'ar'), ('MidEQ', 'kr'),
    ('Mix', 'ar'), ('Mix', 'kr'), ('Mix', 'new'), ('ModDif', 'ar'),
    ('ModDif', 'kr'), ('ModDif', 'ir'), ('MoogFF', 'ar'), ('MoogFF', 'kr'),
    ('MostChange', 'ar'), ('MostChange', 'kr'), ('MouseButton', 'kr'),
    ('MouseX', 'kr'), ('MouseY', 'kr'), ('MulAdd', 'new'), ('NRand', 'new'),
    ('NodeID', 'ir'), ('Normalizer', 'ar'), ('NumAudioBuses', 'ir'),
    ('NumBuffers', 'ir'), ('NumControlBuses', 'ir'), ('NumInputBuses', 'ir'),
    ('NumOutputBuses', 'ir'), ('NumRunningSynths', 'kr'),
    ('NumRunningSynths', 'ir'), ('OffsetOut', 'ar'), ('OffsetOut', 'kr'),
    ('OnePole', 'ar'), ('OnePole', 'kr'), ('OneZero', 'ar'),
    ('OneZero', 'kr'), ('Onsets', 'kr'), ('Osc', 'ar'), ('Osc', 'kr'),
    ('OscN', 'ar'), ('OscN', 'kr'), ('Out', 'ar'), ('Out', 'kr'),
    ('OutputProxy', 'new'), ('PSinGrain', 'ar'), ('PV_Add', 'new'),
    ('PV_BinScramble', 'new'), ('PV_BinShift', 'new'), ('PV_BinWipe', 'new'),
    ('PV_BrickWall', 'new'), ('PV_ConformalMap', 'new'), ('PV_Conj', 'new'),
    ('PV_Copy', 'new'), ('PV_CopyPhase', 'new'), ('PV_Diffuser', 'new'),
    ('PV_Div', 'new'), ('PV_HainsworthFoote', 'ar'),
    ('PV_JensenAndersen', 'ar'), ('PV_LocalMax', 'new'),
    ('PV_MagAbove', 'new'), ('PV_MagBelow', 'new'), ('PV_MagClip', 'new'),
    ('PV_MagDiv', 'new'), ('PV_MagFreeze', 'new'), ('PV_MagMul', 'new'),
    ('PV_MagNoise', 'new'), ('PV_MagShift', 'new'), ('PV_MagSmear', 'new'),
    ('PV_MagSquared', 'new'), ('PV_Max', 'new'), ('PV_Min', 'new'),
    ('PV_Mul', 'new'), ('PV_PhaseShift', 'new'), ('PV_PhaseShift270', 'new'),
    ('PV_PhaseShift90', 'new'), ('PV_RandComb', 'new'),
    ('PV_RandWipe', 'new'), ('PV_RectComb', 'new'), ('PV_RectComb2', 'new'),
    ('PackFFT', 'kr'), ('Pan2', 'ar'), ('Pan2', 'kr'), ('Pan4', 'ar'),
    ('Pan4', 'kr'), ('PanAz', 'ar'), ('PanAz', 'kr'), ('PanB', 'ar'),
    ('PanB', 'kr'), ('PanB2', 'ar'), ('PanB2', 'kr'), ('PartConv', 'ar'),
    ('Pause', 'kr'), ('PauseSelf', 'kr'), ('PauseSelfWhenDone', 'kr'),
    ('Peak', 'ar'), ('Peak', 'kr'), ('PeakFollower', 'ar'),
    ('PeakFollower', 'kr'), ('Phasor', 'ar'), ('Phasor', 'kr'),
    ('PinkNoise', 'ar'), ('PinkNoise', 'kr'), ('Pitch', 'kr'),
    ('PitchShift', 'ar'), ('PlayBuf', 'ar'), ('PlayBuf', 'kr'),
    ('Pluck', 'ar'), ('Poll', 'ar'), ('Poll', 'kr'), ('Poll', 'new'),
    ('Pulse', 'ar'), ('Pulse', 'kr'), ('PulseCount', 'ar'),
    ('PulseCount', 'kr'), ('PulseDivider', 'ar'), ('PulseDivider', 'kr'),
    ('QuadC', 'ar'), ('QuadL', 'ar'), ('QuadN', 'ar'), ('RHPF', 'ar'),
    ('RHPF', 'kr'), ('RLPF', 'ar'), ('RLPF', 'kr'),
    ('RadiansPerSample', 'ir'), ('Ramp', 'ar'), ('Ramp', 'kr'),
    ('Rand', 'new'), ('RandID', 'kr'), ('RandID', 'ir'), ('RandSeed', 'ar'),
    ('RandSeed', 'kr'), ('RandSeed', 'ir'), ('RecordBuf', 'ar'),
    ('RecordBuf', 'kr'), ('ReplaceOut', 'ar'), ('ReplaceOut', 'kr'),
    ('Resonz', 'ar'), ('Resonz', 'kr'), ('Ringz', 'ar'), ('Ringz', 'kr'),
    ('Rotate2', 'ar'), ('Rotate2', 'kr'), ('RunningMax', 'ar'),
    ('RunningMax', 'kr'), ('RunningMin', 'ar'), ('RunningMin', 'kr'),
    ('RunningSum', 'ar'), ('RunningSum', 'kr'), ('SOS', 'ar'), ('SOS', 'kr'),
    ('SampleDur', 'ir'), ('SampleRate', 'ir'), ('Sanitize', 'ar'),
    ('Sanitize', 'kr'), ('Saw', 'ar'), ('Saw', 'kr'), ('Schmidt', 'ar'),
    ('Schmidt', 'kr'), ('Schmidt', 'ir'), ('ScopeOut', 'ar'),
    ('ScopeOut', 'kr'), ('ScopeOut2', 'ar'), ('ScopeOut2', 'kr'),
    ('Select', 'ar'), ('Select', 'kr'), ('SelectX', 'ar'), ('SelectX', 'kr'),
    ('SelectXFocus', 'ar'), ('SelectXFocus', 'kr'), ('SelectXFocus', 'new'),
    ('SendPeakRMS', 'ar'), ('SendPeakRMS', 'kr'), ('SendReply', 'ar'),
    ('SendReply', 'kr'), ('SendTrig', 'ar'), ('SendTrig', 'kr'),
    ('SetBuf', 'new'), ('SetResetFF', 'ar'), ('SetResetFF', 'kr'),
    ('Shaper', 'ar'), ('Shaper', 'kr'), ('Silent', 'ar'), ('SinOsc', 'ar'),
    ('SinOsc', 'kr'), ('SinOscFB', 'ar'), ('SinOscFB', 'kr'), ('Slew', 'ar'),
    ('Slew', 'kr'), ('Slope', 'ar'), ('Slope', 'kr'), ('SoundIn', 'ar'),
    ('SpecCentroid', 'kr'), ('SpecFlatness', 'kr'), ('SpecPcile', 'kr'),
    ('Splay', 'ar'), ('Splay', 'kr'), ('SplayAz', 'ar'), ('SplayAz', 'kr'),
    ('Spring', 'ar'), ('Spring', 'kr'), ('StandardL', 'ar'),
    ('StandardN', 'ar'), ('Stepper', 'ar'), ('Stepper', 'kr'),
    ('StereoConvolution2L', 'ar'), ('SubsampleOffset', 'ir'), ('Sum3', 'new'),
    ('Sum4', 'new'), ('Sweep', 'ar'), ('Sweep', 'kr'), ('SyncSaw', 'ar'),
    ('SyncSaw', 'kr'), ('T2A', 'ar'), ('T2K', 'kr'), ('TBall', 'ar'),
    ('TBall', 'kr'), ('TChoose', 'ar'), ('TChoose', 'kr'), ('TDelay', 'ar'),
    ('TDelay', 'kr'), ('TDuty', 'ar'), ('TDuty', 'kr'), ('TExpRand', 'ar'),
    ('TExpRand', 'kr'), ('TGrains', 'ar'), ('TIRand', 'ar'), ('TIRand', 'kr'),
    ('TRand', 'ar'), ('TRand', 'kr'), ('TWChoose', 'ar'), ('TWChoose', 'kr'),
    ('TWindex', 'ar'), ('TWindex', 'kr'), ('Tap', 'ar'), ('Timer', 'ar'),
    ('Timer', 'kr'), ('ToggleFF', 'ar'), ('ToggleFF', 'kr'), ('Trig', 'ar'),
    ('Trig', 'kr'), ('Trig1', 'ar'), ('Trig1', 'kr'), ('TrigControl', 'kr'),
    ('TrigControl', 'ir'), ('TwoPole', 'ar'), ('TwoPole', 'kr'),
    ('TwoZero', 'ar'), ('TwoZero', 'kr'), ('UnaryOpUGen', 'new'),
    ('Unpack1FFT', 'dr'), ('UnpackFFT', 'dr'), ('VDiskIn', 'ar'),
    ('VOsc', 'ar'), ('VOsc', 'kr'), ('VOsc3', 'ar'), ('VOsc3', 'kr'),
    ('VarLag', 'ar'), ('VarLag', 'kr'), ('VarSaw', 'ar'), ('VarSaw', 'kr'),
    ('Vibrato', 'ar'), ('Vibrato', 'kr'), ('Warp1', 'ar'),
    ('WhiteNoise', 'ar'), ('WhiteNoise', 'kr'), ('Wrap', 'ar'),
    ('Wrap', 'kr'), ('Wrap', 'ir'), ('WrapIndex', 'ar'), ('WrapIndex', 'kr'),
    ('XFade2', 'ar'), ('XFade2', 'kr'), ('XLine', 'ar'), ('XLine', 'kr'),
    ('XOut', 'ar'), ('XOut', 'kr'), ('ZeroCrossing', 'ar'),
    ('ZeroCrossing', 'kr'),
]


def words(nreq):
    """Argument words for a constructor with `nreq` default-less parameters,
    canonical order."""
    if nreq == 0:
        return ['']
    if nreq <= FULL_PRODUCT_UP_TO:
        out = ['']
        for _ in range(nreq):
            out = [w + a for w in out for a in ALPHABET]
        return out
    return [a * nreq for a in ALPHABET]


def selftest():
    assert len(ZOO) == len(set(ZOO)) > 600
    assert words(0) == [''] and len(words(2)) == 100 and words(3)[1] == 'KKK'
    return True
