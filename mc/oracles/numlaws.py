"""C15 numeric laws, as mathematical statements (never imports sc3).

Every function takes the arguments given to the operator and the result `r`
the implementation produced, and returns None (law holds or the statement does
not decide this input) or a short reason string.  Arguments are dyadic
rationals or small integers, so the arithmetic below is done exactly with
Fractions; only the inverse laws use a tolerance.

  wrap(x, lo, hi)   lo < hi : r in [lo, hi)   (all three ints: r in [lo, hi])
  fold(x, lo, hi)   lo <= hi: r in [lo, hi]
  clip              clip(clip(x)) == clip(x)
  round(x, q)       q != 0  : r is an integer multiple of q;
                    q > 0   : |r - x| <= q/2
  roundup(x, q)     q > 0   : 0 <= r - x < q
  trunc(x, q)       q > 0   : 0 <= x - r < q
  mod(a, b)         b > 0   : 0 <= r (< b)
  g(f(x)) == x      relative 1e-9 for the four unit-conversion pairs
"""

from fractions import Fraction as Fr
import math


def _num(r):
    return isinstance(r, (int, float)) and not isinstance(r, bool) \
        and math.isfinite(r)


def _all_int(*a):
    return all(type(v) is int for v in a)


def wrap_law(x, lo, hi, r):
    if not lo < hi:
        return None            # empty or reversed interval: not decided
    if not _num(r):
        return f'result {r!r} is not a finite number'
    if _all_int(x, lo, hi):
        ok = Fr(lo) <= Fr(r) <= Fr(hi)
        rng = f'[{lo}, {hi}]'
    else:
        ok = Fr(lo) <= Fr(r) < Fr(hi)
        rng = f'[{lo}, {hi})'
    return None if ok else f'{r!r} outside {rng}'


def fold_law(x, lo, hi, r):
    if not lo <= hi:
        return None
    if not _num(r):
        return f'result {r!r} is not a finite number'
    ok = Fr(lo) <= Fr(r) <= Fr(hi)
    return None if ok else f'{r!r} outside [{lo}, {hi}]'


def idempotent_law(r1, r2):
    """r1 = clip(x, lo, hi), r2 = clip(r1, lo, hi)."""
    if r1 != r1 and r2 != r2:
        return None
    return None if r1 == r2 else f'clip(clip(x)) = {r2!r} but clip(x) = {r1!r}'


def multiple_law(q, r):
    if q == 0:
        return None            # every number / only x: not decided
    if not _num(r):
        return f'result {r!r} is not a finite number'
    k = Fr(r) / Fr(q)
    return None if k.denominator == 1 else \
        f'{r!r} is not an integer multiple of {q!r}'


def round_side_law(x, q, r):
    if not q > 0 or not _num(r):
        return None
    d = abs(Fr(r) - Fr(x))
    return None if d <= Fr(q) / 2 else \
        f'|{r!r} - {x!r}| > {q!r}/2: not the nearest multiple'


def roundup_side_law(x, q, r):
    if not q > 0 or not _num(r):
        return None
    d = Fr(r) - Fr(x)
    return None if 0 <= d < Fr(q) else \
        f'{r!r} is not the first multiple of {q!r} at or above {x!r}'


def trunc_side_law(x, q, r):
    if not q > 0 or not _num(r):
        return None
    d = Fr(x) - Fr(r)
    return None if 0 <= d < Fr(q) else \
        f'{r!r} is not the last multiple of {q!r} at or below {x!r}'


def mod_nonneg_law(a, b, r):
    if not b > 0:
        return None
    if not _num(r):
        return f'result {r!r} is not a finite number'
    return None if Fr(r) >= 0 else f'{r!r} is negative for modulus {b!r}'


def mod_below_law(a, b, r):
    if not b > 0 or not _num(r):
        return None
    return None if Fr(r) < Fr(b) else f'{r!r} is not below modulus {b!r}'


def inverse_law(x, back, rel=1e-9):
    """back = g(f(x)); must return x up to `rel` (relative to max(1,|x|))."""
    if not _num(back):
        return f'g(f({x!r})) = {back!r} is not a finite number'
    tol = rel * max(1.0, abs(x))
    return None if abs(back - x) <= tol else \
        f'g(f({x!r})) = {back!r}, off by {abs(back - x):.3g}'


def selftest():
    # sclang: 7.3.wrap(0, 2) = 1.3, 5.wrap(0, 2) = 2 (ints closed), -1.wrap(0,2)=2
    assert wrap_law(7.25, 0, 2, 1.25) is None
    assert wrap_law(5, 0, 2, 2) is None
    assert wrap_law(5.0, 0, 2, 2.0) is not None      # half open for floats
    assert wrap_law(3, 0.5, 2, 0) is not None         # below a float bound
    assert wrap_law(1, 2, 0, 99) is None              # reversed: don't-care
    assert fold_law(2.5, 0, 2, 1.5) is None
    assert fold_law(5, 0, 2, 3) is not None
    assert fold_law(7, 1, 1, 1) is None and fold_law(7, 1, 1, 2) is not None
    assert idempotent_law(2, 2) is None and idempotent_law(2, 1) is not None
    # 5.round(3) = 6, 4.round(3) = 3, 2.25.round(0.5) = 2.5
    assert multiple_law(3, 6.0) is None and multiple_law(3, 5.0) is not None
    assert multiple_law(-2, 4.0) is None and multiple_law(0, 1.23) is None
    assert multiple_law(0.5, 2.25) is not None
    assert round_side_law(5, 3, 6.0) is None
    assert round_side_law(5, 3, 3.0) is not None
    assert round_side_law(2.25, 0.5, 2.5) is None     # tie: either side
    assert round_side_law(2.25, 0.5, 2.0) is None
    assert roundup_side_law(2.25, 0.5, 2.5) is None
    assert roundup_side_law(2.5, 0.5, 2.5) is None
    assert roundup_side_law(2.5, 0.5, 3.0) is not None
    assert roundup_side_law(2.25, 0.5, 2.0) is not None
    assert trunc_side_law(-2.25, 0.5, -2.5) is None
    assert trunc_side_law(-2.25, 0.5, -2.0) is not None
    assert mod_nonneg_law(-1, 3, 2) is None
    assert mod_nonneg_law(-1, 3, -1)
    assert mod_nonneg_law(-1, -3, -1) is None
    assert mod_below_law(5, 3, 2) is None and mod_below_law(5, 3, 5)
    assert inverse_law(69.0, 69.0000000001) is None
    assert inverse_law(3.0, 2.34) is not None
    assert inverse_law(0.0, 1e-12) is None
    assert inverse_law(1.0, float('nan')) is not None
    return True


if __name__ == '__main__':
    selftest()
    print('numlaws ok')
