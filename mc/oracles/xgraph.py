"""Extended graph programs ("xprog") for C02: reference interpretation and the
form / wiring / ordering analysis of a decoded SCgf definition.  Never imports
sc3.  Written from the SuperCollider references: "Synth Definition File
Format", "Multichannel Expansion", the UGen help files (input order of SinOsc,
LFNoise0, LPF, Pan2, In, Out, BufRd, LocalBuf, SetBuf, ClearBuf, RandSeed,
RandID, FFT, PV_MagAbove, IFFT) and "Order of execution" (width-first units).

A program is plain data:
  {'x': 1, 'name': str, 'params': 'none'|'gate'|'mixed', 'stmts': [stmt...],
   'outs': 'last'|'each'|'each1'|'list'|'gatebus'|'force_ar',
   'outcls': 'Out'|'ReplaceOut'|'OffsetOut'|'XOut'|'LocalOut' (optional),
   'tagbase': int, 'fault': {...} (optional, see c02)}
Statement k may refer to the values 'v<j>', j < k.  Every unit a statement
creates carries the constant tag(k, s) = tagbase + 4k + s as one input, so the
statement that created a decoded unit can be read off the bytes.

  ['sin', 'ar'|'kr']     SinOsc(tag)                 pure        1 channel
  ['noise']              LFNoise0.ar(tag)            stateful    1 channel
  ['nest']               SinOsc.ar([[t0, t1], t2])   pure        [[a, b], c]
  ['in', 'ar'|'kr']      In(tag, 2)                  multi-out   2 channels
  ['pan', x]             Pan2.ar(x, 0.5, tag)        multi-out   2 ch / nested
  ['mul', x]             x * tag                     pure
  ['add', x]             x + tag                     pure
  ['mul2', x, y]         x * y                       pure
  ['add2', x, y]         x + y                       pure (optimiser: Sum3/4)
  ['madd', x, m, a]      x.madd(m, a)   m, a: value or number     pure
  ['sum3', a, b, c]      ChannelList([a, b, c]).sum()             pure
  ['num']                the number tag (no unit; for constant tables)
  ['sinx', n]            SinOsc.ar([t, t+1/512, ...]) n channels  pure
  ['lpf', x]             LPF.ar(x, tag)              pure
  ['sel', x, j]          x[j]                        no unit
  ['par', name(, j)]     function parameter          no unit
  ['seed', 'ir'|'kr']    RandSeed(1, tag)            width-first
  ['rid']                RandID.ir(tag)              width-first
  ['lbuf']               LocalBuf(frames=tag, 1)     width-first (+MaxLocalBufs)
  ['set', b]             SetBuf(b, [tag])            width-first
  ['clear', b]           ClearBuf(b)                 width-first
  ['bufrd', b]           BufRd.kr(1, b, tag, 1, 2)   multi-out   1 channel
  ['fft', b, x]          FFT(b, x, 0.5, 0, 1, tag)   width-first chain
  ['pv', c]              PV_MagAbove(c, tag)         width-first chain
  ['ifft', c]            IFFT.ar(c, 0, tag)          width-first 1 channel
  ['bin', kind]          another bus reader, 2 channels (SoundIn: 1):
                         InFeedback.ar(tag, 2) | LagIn.kr(tag, 2, tag+1) |
                         InTrig.kr(tag, 2) | LocalIn.ar(2, tag) |
                         LocalIn.kr(2, tag) | SoundIn.ar(tag)
Output classes (InOut help files): Out/ReplaceOut/OffsetOut(bus, channels),
XOut(bus, xfade, channels), LocalOut(channels); OffsetOut has no control-rate
form.
"""

import json
import math

TAGSTEP = 4

def param_spec(variant):
    """[(name, default or tuple, kind)] in argument order; 'arr<N>' is one
    control-rate array parameter with N float32-exact defaults ('lagarr<N>'
    the same with a lag time, SynthDef(..., rates=[0.5])), 'named<N>' are N
    single parameters p0..p<N-1> whose kinds cycle kr, ir, tr, ar.  A
    default of None is not decided by the reference (don't-care)."""
    if variant.startswith('arr'):
        n = int(variant[3:])
        return [('freq', tuple((j + 1) * 0.25 for j in range(n)), 'kr')]
    if variant.startswith('lagarr'):
        n = int(variant[6:])
        return [('freq', tuple((j + 1) * 0.25 for j in range(n)), 'kr')]
    if variant.startswith('named'):
        n = int(variant[5:])
        return [(f'p{j}', (j + 1) * 0.25, NAMED_KINDS[j % 4])
                for j in range(n)]
    if variant.startswith('grp_'):
        return group_spec(variant)
    return PARAMS[variant]


NAMED_KINDS = ('kr', 'ir', 'tr', 'ar')

# Array-valued parameters inside one control group (the library makes one
# control unit per group ir / tr / ar / kr; a name's slot is the sum of the
# widths before it).  'grp_<kind>_<pos>': three parameters <kind>_x, <kind>_y,
# <kind>_z of that kind with an array first / in the middle / last and mixed
# widths; 'grp_all': every group holds an array followed by a single value.
GROUP_WIDTHS = {'first': (3, 1, 2), 'middle': (1, 3, 1), 'last': (1, 2, 3),
                'all': (2, 3, 2)}
GROUP_VARIANTS = [f'grp_{k}_{p}' for k in ('ir', 'tr', 'ar', 'kr')
                  for p in ('first', 'middle', 'last', 'all')] + ['grp_all']


def group_spec(variant):
    if variant == 'grp_all':
        return [('ia', (1.0, 2.0, 3.0), 'ir'), ('ib', 5.0, 'ir'),
                ('tc', (6.0, 7.0), 'tr'), ('td', 8.0, 'tr'),
                ('ae', (9.0, 10.0), 'ar'), ('af', 11.0, 'ar'),
                ('kg', (12.0, 13.0), 'kr'), ('kh', 14.0, 'kr'),
                ('gate', 1.0, 'kr')]
    _, kind, pos = variant.split('_')
    out = []
    v = 0
    for nm, w in zip('xyz', GROUP_WIDTHS[pos]):
        vals = tuple((v + j + 1) * 0.25 for j in range(w))
        v += w
        out.append((f'{kind}_{nm}', vals if w > 1 else vals[0], kind))
    return out


PARAMS = {
    # variant: [(name, default or tuple, kind)] in argument order
    'none': [],
    'gate': [('gate', 1.0, 'kr')],
    'mixed': [('freq', (0.5, 2.0, 4.0), 'kr'), ('gate', 1.0, 'kr'),
              ('t', 0.5, 'tr'), ('a', 0.25, 'ar'), ('i', 8.0, 'ir')],
    # SynthDef(..., rates=[0.5, None, 0.125]): lagged control-rate parameters
    'lag': [('freq', (0.5, 2.0, 4.0), 'kr'), ('gate', 1.0, 'kr'),
            ('amp', 0.25, 'kr')],
    # one lagged array parameter of 20 values (lag units hold 16 at most)
    'lag20': [('freq', tuple((j + 1) * 0.25 for j in range(20)), 'kr')],
    # graph(a=1, b: 'kr' = 2, c=3, d: 'ir' = 4, e: 'ar' = 5),
    # rates=['ir', 'tr', 'ar', 'kr']: the rates argument overrides annotations
    'rates': [('a', 1.0, 'ir'), ('b', 2.0, 'tr'), ('c', 3.0, 'ar'),
              ('d', 4.0, 'kr'), ('e', 5.0, 'ar')],
    # graph(x, y, freq=2, gate=1), prepend=[0.5, 7.0]: no control for x, y
    'prepend': [('freq', 2.0, 'kr'), ('gate', 1.0, 'kr')],
    # graph(gate=1) calling SynthDef.wrap(inner(z, freq=2, a: 'ar' = 0.25),
    # rates=['ir'], prepend=[3.0])
    'wrap': [('gate', 1.0, 'kr'), ('freq', 2.0, 'ir'), ('a', 0.25, 'ar')],
    # several SynthDef.wrap calls in one graph function (see WRAP_VARIANTS):
    # two siblings
    'wrap2': [('gate', 1.0, 'kr'),
              ('wa_f', 2.0, 'kr'), ('wa_a', (0.25, 3.0), 'ir'),
              ('wb_d', 0.5, 'kr'), ('wb_p', (0.75, 1.25), 'ar'),
              ('wb_t', 1.5, 'tr')],
    # three siblings
    'wrap3': [('gate', 1.0, 'kr'),
              ('wc_a', 2.0, 'kr'), ('wc_b', (0.25, 0.5), 'tr'),
              ('wd_a', 3.0, 'ir'), ('wd_b', (0.75, 1.0, 1.25), 'kr'),
              ('we_a', (1.5, 1.75), 'ar'), ('we_b', 4.0, 'kr')],
    # a wrap followed by controls made by hand
    'wrapman': [('gate', 1.0, 'kr'),
                ('wf_a', 2.0, 'kr'), ('wf_b', (0.25, 0.5), 'ir'),
                ('wf_c', (0.75, 1.0), 'kr'), ('wf_d', 1.25, 'ar')],
    # a wrap with another wrap inside it, followed by a sibling
    'wrapnest': [('gate', 1.0, 'kr'),
                 ('wg_a', 2.0, 'kr'), ('wg_b', (0.25, 0.5), 'ir'),
                 ('wh_a', 0.75, 'tr'), ('wh_b', (1.0, 1.25), 'kr'),
                 ('wi_a', 3.0, 'kr'), ('wi_b', (1.5, 1.75), 'ar')],
    # the wrapped functions first, then a parameter-less sibling, no outer
    # parameters
    'wrapbare': [('wj_a', (0.25, 0.5), 'kr'), ('wj_b', 2.0, 'ir'),
                 ('wk_a', 3.0, 'tr'), ('wk_b', (0.75, 1.0, 1.25), 'ar')],
    # controls made by hand inside the function (AbstractControl docstring)
    'manual': [('freq', (0.5, 2.0), 'kr'), ('a', 0.25, 'ar'),
               ('l', (4.0, 8.0), 'kr'), ('i', 0.125, 'ir')],
    # graph(nd, n=None, b=True, k=3): missing / None -> 0, numbers as floats
    'defaults': [('nd', 0.0, 'kr'), ('n', 0.0, 'kr'), ('b', 1.0, 'kr'),
                 ('k', 3.0, 'kr')],
    # graph(freq=None, amp=None, gate=1), metadata={'specs': {'freq': spec}}:
    # the default of freq is not decided here
    'specs': [('freq', None, 'kr'), ('amp', 0.0, 'kr'), ('gate', 1.0, 'kr')],
}


WRAP_VARIANTS = ['wrap2', 'wrap3', 'wrapman', 'wrapnest', 'wrapbare']


def has_gate(variant):
    return any(name == 'gate' for name, _, _ in param_spec(variant))

KIND_RATE = {'ir': 0, 'kr': 1, 'tr': 1, 'ar': 2}
KIND_CLASS = {'ir': 'Control', 'kr': 'Control', 'tr': 'TrigControl',
              'ar': 'AudioControl'}
RATE_NAME = {0: 'scalar', 1: 'control', 2: 'audio', 3: 'demand'}

CONTROL_CLASSES = {'Control', 'TrigControl', 'AudioControl', 'LagControl'}
ARITH = {'BinaryOpUGen', 'UnaryOpUGen', 'MulAdd', 'Sum3', 'Sum4'}
PURE = {'SinOsc', 'LPF', 'DC', 'NumOutputBuses'} | ARITH
WIDTH_FIRST = {'RandSeed', 'RandID', 'LocalBuf', 'SetBuf', 'ClearBuf', 'FFT',
               'PV_MagAbove', 'IFFT'}
# number of outputs by class where the class fixes it
OUT_FIXED = {'Out': 1, 'ReplaceOut': 1, 'OffsetOut': 1, 'LocalOut': 0,
             'XOut': 2}
IN_CLASSES = {'In', 'LocalIn', 'LagIn', 'InFeedback', 'InTrig'}
NOUT = {'SinOsc': 1, 'LFNoise0': 1, 'LPF': 1, 'Pan2': 2, 'Out': 0,
        'ReplaceOut': 0, 'OffsetOut': 0, 'LocalOut': 0, 'XOut': 0,
        'NumOutputBuses': 1,
        'RandSeed': 1, 'RandID': 1, 'LocalBuf': 1, 'SetBuf': 1, 'ClearBuf': 1,
        'FFT': 1, 'PV_MagAbove': 1, 'IFFT': 1, 'MaxLocalBufs': 1, 'DC': 1,
        'BinaryOpUGen': 1, 'UnaryOpUGen': 1, 'MulAdd': 1, 'Sum3': 1,
        'Sum4': 1, 'Line': 1}
# classes all of whose outputs run at the unit's own rate (all of ours)
BIN_ADD, BIN_MUL = 0, 2


class IllTyped(Exception):
    """The program is not a well-formed graph function (used deliberately by
    the fault enumeration) or the law does not decide its expansion."""


def tag(prog, k, s=0):
    return float(prog['tagbase'] + TAGSTEP * k + s)


def canon(t):
    return json.dumps(t, sort_keys=True, separators=(',', ':'))


# --------------------------------------------------------------------------
# terms
# --------------------------------------------------------------------------

def t_const(x):
    return ['c', float(x)]


def _ac(head, a, b):
    items = []
    for t in (a, b):
        if t[0] == head:
            items += t[1]
        else:
            items.append(t)
    items.sort(key=canon)
    return [head, items]


def t_prod(a, b):
    return _ac('prod', a, b)


def t_sum(a, b):
    return _ac('sum', a, b)


class Ch:
    """One channel of the reference: a term and its calculation rate."""
    __slots__ = ('term', 'rate')

    def __init__(self, term, rate):
        self.term = term
        self.rate = rate

    def __repr__(self):
        return f'Ch({self.rate}, {canon(self.term)})'


def mc(fn, args):
    """The wrap-and-zip law: call fn once per index of the longest list
    argument, list arguments replaced by their element i mod len; recursive
    (an element may itself be a list)."""
    n = None
    for a in args:
        if isinstance(a, list):
            n = len(a) if n is None else max(n, len(a))
    if n is None:
        return fn(*args)
    if n == 0 or any(isinstance(a, list) and not a for a in args):
        raise IllTyped('empty list: not decided by the law')
    return [mc(fn, [a[i % len(a)] if isinstance(a, list) else a
                    for a in args]) for i in range(n)]


def flat(v):
    if isinstance(v, list):
        out = []
        for x in v:
            out += flat(x)
        return out
    return [v]


# --------------------------------------------------------------------------
# backends: the traversal `execute` drives either the reference backend below
# or the real-library backend of mc/checks/c02.py
# --------------------------------------------------------------------------

class RefBackend:
    def __init__(self, prog):
        self.prog = prog
        self.roots = []       # (stamp, term) of side-effecting units
        self.stamp = 0
        self.plan = []        # 'ar' / 'kr' decision of every output call
        self.n_localbuf = 0
        self.maxlocal = None
        self.flags = set()

    # helpers
    def _in(self, x):
        if isinstance(x, Ch):
            return x.term
        if isinstance(x, (int, float)) and not isinstance(x, bool):
            if math.isnan(x):
                raise IllTyped('nan')
            return t_const(x)
        raise IllTyped(f'not a signal: {x!r}')

    def _unit(self, cls, rate, nout, ins, pure=False):
        base = ['u', cls, rate, nout, [self._in(x) for x in ins]]
        if not pure:
            self.roots.append((self.stamp, base))
        outs = [Ch(base + [o], rate) for o in range(nout)]
        return outs

    def _one(self, cls, rate, ins, pure=False):
        return self._unit(cls, rate, 1, ins, pure)[0]

    def _need_audio(self, x, what):
        if not isinstance(x, Ch) or x.rate != 2:
            raise IllTyped(f'{what} needs an audio-rate input')

    # parameters
    def params(self, variant):
        env = {}
        for name, default, kind in param_spec(variant):
            r = KIND_RATE[kind]
            if isinstance(default, tuple):
                env[name] = [Ch(['ctl', name, j], r)
                             for j in range(len(default))]
            else:
                env[name] = Ch(['ctl', name, 0], r)
        return env

    # primitives (all go through mc() where the library expands)
    def sin(self, rate, freq):
        r = 2 if rate == 'ar' else 1
        return mc(lambda f: self._one('SinOsc', r, [f, 0.0], pure=True),
                  [freq])

    def noise(self, freq):
        return mc(lambda f: self._one('LFNoise0', 2, [f]), [freq])

    def inn(self, rate, bus):
        r = 2 if rate == 'ar' else 1
        return mc(lambda b: self._unit('In', r, 2, [b]), [bus])

    def bin(self, kind, bus, lag):
        """The other bus readers; `lag` is only used by LagIn."""
        if kind == 'InFeedback':
            return mc(lambda b: self._unit('InFeedback', 2, 2, [b]), [bus])
        if kind == 'LagIn':
            return mc(lambda b, l: self._unit('LagIn', 1, 2, [b, l]),
                      [bus, lag])
        if kind == 'InTrig':
            return mc(lambda b: self._unit('InTrig', 1, 2, [b]), [bus])
        if kind in ('LocalIn.ar', 'LocalIn.kr'):
            # one default value per channel (a single one is repeated); the
            # default list is a constructor argument, it does not expand
            r = 2 if kind.endswith('ar') else 1
            if isinstance(bus, list):
                raise IllTyped('LocalIn default list: not decided here')
            return self._unit('LocalIn', r, 2, [bus, bus])
        if kind == 'SoundIn':
            # In.ar(NumOutputBuses.ir + bus, 1)
            def f(b):
                n = self._one('NumOutputBuses', 0, [], pure=True)
                return self._unit('In', 2, 1, [self._binop('sum', n, b)])[0]
            if isinstance(bus, list):
                raise IllTyped('SoundIn bus list: not decided here')
            return f(bus)
        raise IllTyped(f'bus reader {kind}')

    def pan(self, x, level):
        def f(x, level):
            self._need_audio(x, 'Pan2.ar')
            return self._unit('Pan2', 2, 2, [x, 0.5, level])
        return mc(f, [x, level])

    def _binop(self, head, a, b):
        def f(a, b):
            ta, tb = self._in(a), self._in(b)
            ra = a.rate if isinstance(a, Ch) else 0
            rb = b.rate if isinstance(b, Ch) else 0
            t = t_prod(ta, tb) if head == 'prod' else t_sum(ta, tb)
            return Ch(t, max(ra, rb))
        if not any(isinstance(x, (Ch, list)) for x in (a, b)):
            raise IllTyped('constant-only arithmetic is plain Python')
        return mc(f, [a, b])

    def mul(self, a, b):
        return self._binop('prod', a, b)

    def add(self, a, b):
        return self._binop('sum', a, b)

    def madd(self, x, m, a):
        def f(x, m, a):
            if not isinstance(x, Ch):
                raise IllTyped('madd receiver must be a signal')
            rs = [v.rate if isinstance(v, Ch) else 0 for v in (x, m, a)]
            return Ch(t_sum(t_prod(self._in(x), self._in(m)), self._in(a)),
                      max(rs))
        return mc(f, [x, m, a])

    def sum3(self, a, b, c):
        xs = [a, b, c]
        if any(isinstance(x, list) for x in xs) or \
                not any(isinstance(x, Ch) for x in xs):
            raise IllTyped('sum3 takes single channels, one a signal')
        rs = [v.rate if isinstance(v, Ch) else 0 for v in xs]
        t = t_sum(t_sum(self._in(a), self._in(b)), self._in(c))
        return Ch(t, max(rs))

    def num(self, x):
        return float(x)

    def lpf(self, x, freq):
        def f(x, freq):
            self._need_audio(x, 'LPF.ar')
            return self._one('LPF', 2, [x, freq], pure=True)
        return mc(f, [x, freq])

    def sel(self, x, j):
        if not isinstance(x, list) or j >= len(x):
            raise IllTyped('sel of a non-list')
        return x[j]

    def seed(self, rate, seed):
        r = 0 if rate == 'ir' else 1
        mc(lambda s: self._unit('RandSeed', r, 1, [1.0, s]), [seed])
        return None

    def rid(self, i):
        mc(lambda i: self._unit('RandID', 0, 1, [i]), [i])
        return None

    def lbuf(self, frames):
        def f(frames):
            if self.maxlocal is None:
                self.maxlocal = ['c', None]
                m = ['u', 'MaxLocalBufs', 0, 1, [self.maxlocal]]
                self.roots.append((self.stamp, m))
                self.maxlocal_ch = Ch(m + [0], 0)
            self.n_localbuf += 1
            self.maxlocal[1] = float(self.n_localbuf)
            return self._one('LocalBuf', 0, [1.0, frames, self.maxlocal_ch])
        return mc(f, [frames])

    def setbuf(self, buf, value):
        def f(buf, value):
            return self._one('SetBuf', 0, [buf, 0.0, 1.0, value])
        mc(f, [buf, value])
        return None

    def clearbuf(self, buf):
        mc(lambda b: self._one('ClearBuf', 0, [b]), [buf])
        return None

    def bufrd(self, buf, phase):
        def f(buf, phase):
            return self._unit('BufRd', 1, 1, [buf, phase, 1.0, 2.0])[0]
        return mc(f, [buf, phase])

    def fft(self, buf, x, winsize):
        def f(buf, x, winsize):
            return self._one('FFT', 1, [buf, x, 0.5, 0.0, 1.0, winsize])
        return mc(f, [buf, x, winsize])

    def pv(self, chain, thresh):
        return mc(lambda c, t: self._one('PV_MagAbove', 1, [c, t]),
                  [chain, thresh])

    def ifft(self, chain, winsize):
        return mc(lambda c, w: self._one('IFFT', 2, [c, 0.0, w]),
                  [chain, winsize])

    def out(self, bus, chans, force=None, cls='Out', xfade=None):
        """chans: list of channel values (each a Ch or a nested list)."""
        if cls not in OUT_FIXED:
            raise IllTyped(f'output class {cls}')
        fl = [c for x in chans for c in flat(x)]
        if not fl:
            raise IllTyped('output without channels')
        for c in fl:
            self._in(c)
        audio = all(isinstance(c, Ch) and c.rate == 2 for c in fl)
        if force == 'ar' and not audio:
            raise IllTyped('control-rate signal into an audio-rate output')
        rate = 'ar' if (audio or force == 'ar') else 'kr'
        if cls == 'OffsetOut' and rate == 'kr':
            raise IllTyped('OffsetOut has no control-rate form')
        self.plan.append(rate)
        r = 2 if rate == 'ar' else 1
        fixed = {0: [], 1: [bus], 2: [bus, xfade]}[OUT_FIXED[cls]]

        def f(*args):
            self._unit(cls, r, 0, list(args))
        mc(f, fixed + list(chans))
        return rate


def execute(prog, be):
    """Run the program on a backend.  The same traversal serves the reference
    and the real library, so both see the same tags and the same statement
    order."""
    stmts = prog['stmts']
    fault = prog.get('fault')
    env = be.params(prog.get('params', 'none'))
    vals = []

    def opd(a):
        if isinstance(a, (int, float)) and not isinstance(a, bool):
            return a
        return ref(a)

    def ref(a):
        if isinstance(a, str) and a[:1] == 'v' and a[1:].isdigit():
            j = int(a[1:])
            if j >= len(vals) or vals[j] is None:
                raise IllTyped(f'{a} is not a value')
            return vals[j]
        raise IllTyped(f'bad reference {a!r}')

    for k, st in enumerate(stmts):
        be.stamp = k
        op = st[0]

        def A(slot, normal):
            if fault and fault.get('at') == k and fault.get('slot') == slot:
                return be.fault_value(fault['value'], tag(prog, k, 3))
            return normal

        t0 = tag(prog, k)
        if op == 'sin':
            v = be.sin(st[1], A(0, t0))
        elif op == 'noise':
            v = be.noise(A(0, t0))
        elif op == 'nest':
            v = be.sin('ar', [[A(0, t0), tag(prog, k, 1)], tag(prog, k, 2)])
        elif op == 'in':
            v = be.inn(st[1], A(0, t0))
        elif op == 'bin':
            v = be.bin(st[1], A(0, t0), tag(prog, k, 1))
        elif op == 'pan':
            v = be.pan(A(0, ref(st[1])), A(1, t0))
        elif op == 'mul':
            v = be.mul(A(0, ref(st[1])), A(1, t0))
        elif op == 'add':
            v = be.add(A(0, ref(st[1])), A(1, t0))
        elif op == 'mul2':
            v = be.mul(A(0, ref(st[1])), A(1, ref(st[2])))
        elif op == 'add2':
            v = be.add(A(0, ref(st[1])), A(1, ref(st[2])))
        elif op == 'madd':
            v = be.madd(A(0, ref(st[1])), A(1, opd(st[2])), A(2, opd(st[3])))
        elif op == 'sum3':
            v = be.sum3(A(0, opd(st[1])), A(1, opd(st[2])), A(2, opd(st[3])))
        elif op == 'num':
            v = be.num(t0)
        elif op == 'sinx':
            v = be.sin('ar', [t0 + j / 512 for j in range(st[1])])
        elif op == 'lpf':
            v = be.lpf(A(0, ref(st[1])), A(1, t0))
        elif op == 'sel':
            v = be.sel(ref(st[1]), st[2])
        elif op == 'par':
            v = env[st[1]]
            if len(st) > 2:
                v = be.sel(v, st[2])
        elif op == 'seed':
            v = be.seed(st[1], A(0, t0))
        elif op == 'rid':
            v = be.rid(A(0, t0))
        elif op == 'lbuf':
            v = be.lbuf(A(0, t0))
        elif op == 'set':
            v = be.setbuf(A(0, ref(st[1])), A(1, t0))
        elif op == 'clear':
            v = be.clearbuf(A(0, ref(st[1])))
        elif op == 'bufrd':
            v = be.bufrd(A(0, ref(st[1])), A(1, t0))
        elif op == 'fft':
            v = be.fft(A(0, ref(st[1])), A(1, ref(st[2])), A(2, t0))
        elif op == 'pv':
            v = be.pv(A(0, ref(st[1])), A(1, t0))
        elif op == 'ifft':
            v = be.ifft(A(0, ref(st[1])), A(1, t0))
        else:
            raise IllTyped(f'unknown statement {st}')
        vals.append(v)

    # ---- outputs -------------------------------------------------------
    n = len(stmts)
    sig = [i for i, st in enumerate(stmts)
           if vals[i] is not None and SIGNAL_RESULT.get(st[0], False)]
    mode = prog['outs']
    outcls = prog.get('outcls', 'Out')
    calls = []          # one channel array per output call
    if mode in ('last', 'gatebus', 'force_ar'):
        if sig:
            calls.append(vals[sig[-1]])
    elif mode == 'each':
        calls = [vals[i] for i in sig]
    elif mode == 'each1':
        for i in sig:
            v = vals[i]
            calls.append(v[1] if isinstance(v, list) and len(v) > 1 else v)
    elif mode == 'list':
        if sig:
            calls.append([c for i in sig for c in be.flatten(vals[i])])
    elif mode != 'none':
        raise IllTyped(f'outs {mode}')
    for oi, chans in enumerate(calls):
        be.stamp = n + oi
        # a list value is the channel array itself, a single channel is an
        # array of one
        chans = list(chans) if isinstance(chans, list) else [chans]
        bus = env['gate'] if mode == 'gatebus' else tag(prog, n + oi)
        xfade = tag(prog, n + oi, 1)
        if fault and fault.get('at') == 'out' and fault.get('index') == oi:
            fv = be.fault_value(fault['value'], tag(prog, n + oi, 3))
            if fault['slot'] == 'bus':
                bus = fv
            elif fault['slot'] == 'xfade':
                xfade = fv
            else:
                chans[fault['slot'] % len(chans)] = fv
        be.out(bus, chans, 'ar' if mode == 'force_ar' else None, outcls,
               xfade)
    return vals


# statements whose value is a signal that the output options may use
SIGNAL_RESULT = {'sin': True, 'noise': True, 'nest': True, 'in': True,
                 'bin': True, 'pan': True, 'mul': True, 'add': True,
                 'mul2': True, 'lpf': True, 'sel': True, 'par': True, 'bufrd': True,
                 'ifft': True, 'add2': True, 'madd': True, 'sum3': True,
                 'num': True, 'sinx': True}


def _ref_flatten(v):
    return flat(v)


RefBackend.flatten = staticmethod(_ref_flatten)


def _ref_fault(self, value, t):
    raise IllTyped(f'fault {value}')


RefBackend.fault_value = _ref_fault


def interpret(prog):
    """Reference run -> dict(roots=[(stamp, term)], plan=[...], controls=...,
    outs_desc, ins_desc, flags).  Raises IllTyped for programs that are not
    well-formed graph functions."""
    be = RefBackend(prog)
    execute(prog, be)
    roots = be.roots
    outs_desc, ins_desc = [], []
    for _, t in roots:
        if t[1] in OUT_FIXED:
            nf = OUT_FIXED[t[1]]
            outs_desc.append([RATE_NAME[t[2]], len(t[4]) - nf,
                              _start(t[4][0]) if nf else '-', t[1]])
        elif t[1] in IN_CLASSES:
            ins_desc.append([RATE_NAME[t[2]], t[3],
                             _start(t[4][0]) if t[1] != 'LocalIn' else '-',
                             t[1]])
    # non-triviality
    stmts = prog['stmts']
    ops = [s[0] for s in stmts]
    flags = set()
    wf = [i for i, o in enumerate(ops)
          if o in ('seed', 'rid', 'lbuf', 'set', 'clear', 'fft', 'pv',
                   'ifft')]
    unitops = [i for i, o in enumerate(ops) if o not in ('sel', 'par')]
    for w in wf:
        if any(i < w for i in unitops) and (any(i > w for i in unitops)):
            flags.add('width-first-between')
    if any(o in ('in', 'pan', 'bin') for o in ops):
        flags.add('multi-output')
    if prog.get('outcls', 'Out') != 'Out' or 'bin' in ops:
        flags.add('bus-unit-class')
    if prog.get('params', 'none') not in ('none', 'gate', 'mixed'):
        flags.add('control-route')
    if 'nest' in ops or any(
            s[0] == 'pan' and _is_multi(stmts, s[1]) for s in stmts):
        flags.add('nested-expansion')
    used = set()
    for s in stmts:
        for a in s[1:]:
            if isinstance(a, str) and a[:1] == 'v':
                used.add(int(a[1:]))
    if prog['outs'] in ('last', 'gatebus') and any(
            SIGNAL_RESULT.get(s[0]) and i not in used
            for i, s in enumerate(stmts[:-1])):
        flags.add('dead-code')
    if any(o in ('add', 'add2', 'madd', 'sum3') for o in ops):
        flags.add('optimiser')
    return {'roots': roots, 'plan': be.plan, 'outs_desc': outs_desc,
            'ins_desc': ins_desc, 'flags': sorted(flags),
            'nontrivial': bool(flags)}


def _is_multi(stmts, a):
    j = int(a[1:])
    return stmts[j][0] in ('in', 'pan', 'nest', 'bin')


def _start(bus_term):
    if bus_term[0] == 'c':
        return bus_term[1]
    if bus_term[0] == 'ctl':
        return bus_term[1]          # the reader reports the control's name
    return '<signal>'


def expected_controls(variant):
    """name -> (rate number, [defaults]) from the signature."""
    out = {}
    for name, default, kind in param_spec(variant):
        d = list(default) if isinstance(default, tuple) else [default]
        out[name] = (KIND_RATE[kind],
                     [None if x is None else float(x) for x in d])
    return out


# --------------------------------------------------------------------------
# analysis of a decoded definition (structure produced by scgf.decode)
# --------------------------------------------------------------------------

def form_problems(d):
    """Mutual consistency of counts, rates and output lists of one decoded
    definition, beyond reference integrity (scgf.validate).  -> [(kind,
    detail)]."""
    bad = []
    units = d['units']
    np_ = len(d['params'])
    covered = [0] * np_
    for i, u in enumerate(units):
        name, rate = u['name'], u['rate']
        # outputs run at the unit's rate (true of every class used here)
        if any(o != rate for o in u['outputs']):
            bad.append(('output-rate-differs-from-unit-rate',
                        f'unit {i} {name} rate {rate} outputs '
                        f'{u["outputs"]}'))
        if name in NOUT and len(u['outputs']) != NOUT[name]:
            bad.append(('output-count-wrong-for-class',
                        f'unit {i} {name} has {len(u["outputs"])} outputs, '
                        f'the class has {NOUT[name]}'))
        if name in CONTROL_CLASSES:
            for o in range(len(u['outputs'])):
                s = u['special'] + o
                if not 0 <= s < np_:
                    bad.append(('control-slot-out-of-range',
                                f'unit {i} {name} output {o} -> slot {s}, '
                                f'{np_} parameters'))
                else:
                    covered[s] += 1
            if name != 'LagControl' and u['inputs']:
                bad.append(('control-unit-has-inputs', f'unit {i} {name}'))
        inr = []
        for inp in u['inputs']:
            if inp[0] == 'c':
                inr.append(0)
            elif 0 <= inp[1] < i and \
                    0 <= inp[2] < len(units[inp[1]]['outputs']):
                inr.append(units[inp[1]]['outputs'][inp[2]])
            else:
                inr.append(None)   # reported by scgf.validate
        if None in inr:
            continue
        if name in ARITH:
            want = {'BinaryOpUGen': 2, 'UnaryOpUGen': 1, 'MulAdd': 3,
                    'Sum3': 3, 'Sum4': 4}[name]
            if len(inr) != want:
                bad.append(('arity-wrong-for-class',
                            f'unit {i} {name} has {len(inr)} inputs'))
            elif rate != max(inr):
                bad.append(('arith-rate-not-max-of-inputs',
                            f'unit {i} {name} rate {rate}, input rates '
                            f'{inr}'))
        if name in OUT_FIXED:
            nf = OUT_FIXED[name]
            if len(inr) < nf:
                bad.append(('out-without-bus',
                            f'unit {i} {name} has {len(inr)} inputs, the '
                            f'class has {nf} before the channels'))
            elif rate == 2 and any(r != 2 for r in inr[nf:]):
                bad.append(('audio-out-fed-non-audio',
                            f'unit {i} {name}.ar channel rates {inr[nf:]}'))
        if name == 'LagControl' and len(inr) != len(u['outputs']):
            bad.append(('lag-count-differs-from-control-count',
                        f'unit {i} LagControl has {len(u["outputs"])} '
                        f'controls and {len(inr)} lag inputs'))
        if name in ('LPF', 'Pan2') and rate == 2 and inr and inr[0] != 2:
            bad.append(('audio-unit-fed-non-audio',
                        f'unit {i} {name}.ar first input rate {inr[0]}'))
    for s, n in enumerate(covered):
        if n != 1:
            bad.append(('control-slots-not-tiled',
                        f'parameter slot {s} is produced by {n} control '
                        'unit outputs'))
            break
    for c in d['constants']:
        if c != c:
            bad.append(('nan-constant', 'the constant table contains NaN'))
            break
    return bad


def control_table(d):
    """Slot table of a decoded definition from its parameter defaults, name
    table and control units: [(name or '?', slot, rate number or None,
    default)] in slot order, and name -> (rate, [defaults], class)."""
    np_ = len(d['params'])
    names = {idx: nm for nm, idx in d['param_names']}
    rate = [None] * np_
    cls = [None] * np_
    for u in d['units']:
        if u['name'] in CONTROL_CLASSES:
            for o in range(len(u['outputs'])):
                s = u['special'] + o
                if 0 <= s < np_:
                    rate[s] = u['rate']
                    cls[s] = u['name']
    table = [(names.get(s, '?'), s, rate[s], d['params'][s])
             for s in range(np_)]
    byname = {}
    cur = None
    for nm, s, r, dv in table:
        if nm != '?':
            cur = nm
            byname[cur] = [r, [dv], cls[s]]
        elif cur is not None:
            byname[cur][1].append(dv)
    return table, {k: tuple(v) for k, v in byname.items()}


def slot_names(d):
    """slot -> (name, offset) using the name table (a name covers the slots
    from its index up to the next named index)."""
    starts = sorted((idx, nm) for nm, idx in d['param_names'])
    out = {}
    for s in range(len(d['params'])):
        cur = None
        for idx, nm in starts:
            if idx <= s:
                cur = (nm, s - idx)
        out[s] = cur
    return out


def decoded_terms(d):
    """Evaluate every unit output of a decoded definition to a term (same
    term language as the reference).  Needs reference integrity.
    -> (per-unit list of output terms, [(position, root term)])."""
    consts = d['constants']
    sn = slot_names(d)
    vals = []
    roots = []
    for i, u in enumerate(d['units']):
        name, rate = u['name'], u['rate']
        ins = []
        for inp in u['inputs']:
            if inp[0] == 'c':
                ins.append(t_const(consts[inp[1]]))
            else:
                ins.append(vals[inp[1]][inp[2]])
        nout = len(u['outputs'])
        if name in CONTROL_CLASSES:
            row = []
            for o in range(nout):
                nm = sn.get(u['special'] + o)
                row.append(['ctl', nm[0], nm[1]] if nm else
                           ['ctl?', u['special'] + o])
            vals.append(row)
            continue
        if name == 'BinaryOpUGen' and len(ins) == 2 and \
                u['special'] in (BIN_ADD, BIN_MUL):
            t = t_sum(*ins) if u['special'] == BIN_ADD else t_prod(*ins)
            vals.append([t])
            continue
        if name == 'MulAdd' and len(ins) == 3:
            vals.append([t_sum(t_prod(ins[0], ins[1]), ins[2])])
            continue
        if name in ('Sum3', 'Sum4') and len(ins) == int(name[-1]):
            t = t_sum(ins[0], ins[1])
            for x in ins[2:]:
                t = t_sum(t, x)
            vals.append([t])
            continue
        if name in ARITH:
            base = ['u', f'{name}:{u["special"]}', rate, nout, ins]
        else:
            base = ['u', name, rate, nout, ins]
        vals.append([base + [o] for o in range(nout)])
        if name not in PURE:
            roots.append((i, base))
    return vals, roots


def unit_stamps(d, prog, nstamps):
    """Creation stamp (statement index) of every decoded unit that carries a
    tag constant as a direct input: the largest one (a unit merged by the
    optimiser does the work of the latest statement it absorbed)."""
    base = prog['tagbase']
    hi = base + TAGSTEP * nstamps
    out = []
    for u in d['units']:
        s = None
        for inp in u['inputs']:
            if u['name'] == 'MaxLocalBufs':
                break       # its constant is the buffer count, not a tag
            if inp[0] == 'c':
                c = d['constants'][inp[1]]
                if base <= c < hi and c == int(c):
                    k = int(c - base) // TAGSTEP
                    s = k if s is None else max(s, k)
        out.append(s)
    return out


def compare(prog, ref, d):
    """Disagreements between a decoded, reference-intact definition and the
    reference run of the program: [(kind, expected, observed, detail)]."""
    dis = []
    for kind, detail in form_problems(d):
        dis.append((kind, None, detail, ''))
    vals, roots = decoded_terms(d)
    want = sorted(canon(t) for _, t in ref['roots'])
    got = sorted(canon(t) for _, t in roots)
    if want != got:
        missing = [w for w in want if w not in got]
        extra = [g for g in got if g not in want]
        dis.append(('side-effecting-units-differ', missing[:3], extra[:3],
                    f'{len(want)} expected, {len(got)} emitted; shown: '
                    'expected-but-missing / emitted-but-unexpected'))
    # width-first order
    nst = len(prog['stmts']) + len(ref['plan']) + 1
    stamps = unit_stamps(d, prog, nst)
    pool = {}
    for s, t in ref['roots']:
        pool.setdefault(canon(t), []).append(s)
    for pos, t in roots:
        lst = pool.get(canon(t))
        if lst:
            s = lst.pop(0)
            if stamps[pos] is None or s > stamps[pos]:
                stamps[pos] = s
    latest = None       # (stamp, position) of the latest-created unit so far
    for pos, u in enumerate(d['units']):
        s = stamps[pos]
        if u['name'] in WIDTH_FIRST and s is not None and \
                latest is not None and latest[0] > s:
            dis.append((
                'width-first-unit-after-later-unit',
                f'{u["name"]} of statement {s} before every unit created '
                'after it',
                f'unit {latest[1]} ({d["units"][latest[1]]["name"]}, '
                f'statement {latest[0]}) precedes unit {pos} '
                f'({u["name"]}, statement {s})', ''))
            break
        if s is not None and (latest is None or s > latest[0]):
            latest = (s, pos)
    # parameters against the signature
    _, byname = control_table(d)
    wantc = expected_controls(prog.get('params', 'none'))
    byname = {k: v[:2] for k, v in byname.items()}
    for k, (r, dv) in wantc.items():
        # a default the reference does not decide: any value of that slot
        if k in byname and None in dv and len(byname[k][1]) == len(dv):
            got = byname[k][1]
            wantc[k] = (r, [g if w is None else w for w, g in zip(dv, got)])
    if {k: list(v) for k, v in byname.items()} != \
            {k: list(v) for k, v in wantc.items()}:
        dis.append(('parameters-differ-from-signature',
                    {k: list(v) for k, v in sorted(wantc.items())},
                    {k: list(v) for k, v in sorted(byname.items())}, ''))
    return dis


# --------------------------------------------------------------------------

def selftest():
    # the law
    assert mc(lambda a, b: (a, b), [[1, 2], [10, 20, 30]]) == \
        [(1, 10), (2, 20), (1, 30)]
    assert mc(lambda a, b: (a, b), [[[1, 2], 3], 9]) == \
        [[(1, 9), (2, 9)], (3, 9)]
    # AC normal forms
    a, b, c = t_const(1), t_const(2), ['ctl', 'x', 0]
    assert t_sum(t_sum(a, c), b) == t_sum(a, t_sum(b, c))
    assert t_prod(c, a) == t_prod(a, c)
    # a hand-written definition: Pan2 with both outputs, RandSeed first
    prog = {'x': 1, 'name': 'g', 'params': 'none', 'tagbase': 100,
            'stmts': [['seed', 'ir'], ['noise'], ['pan', 'v1']],
            'outs': 'last'}
    ref = interpret(prog)
    assert ref['plan'] == ['ar'] and ref['outs_desc'] == \
        [['audio', 2, 112.0, 'Out']]
    d = {'name': 'g', 'constants': [1.0, 100.0, 104.0, 0.5, 108.0, 112.0],
         'params': [], 'param_names': [], 'variants': [],
         'units': [
             {'name': 'RandSeed', 'rate': 0, 'special': 0,
              'inputs': [('c', 0), ('c', 1)], 'outputs': [0]},
             {'name': 'LFNoise0', 'rate': 2, 'special': 0,
              'inputs': [('c', 2)], 'outputs': [2]},
             {'name': 'Pan2', 'rate': 2, 'special': 0,
              'inputs': [('u', 1, 0), ('c', 3), ('c', 4)],
              'outputs': [2, 2]},
             {'name': 'Out', 'rate': 2, 'special': 0,
              'inputs': [('c', 5), ('u', 2, 0), ('u', 2, 1)],
              'outputs': []}]}
    assert compare(prog, ref, d) == [], compare(prog, ref, d)
    # swapped outputs of the panner are a wiring difference
    d2 = json.loads(json.dumps(d))
    d2['units'][3]['inputs'] = [['c', 5], ['u', 2, 1], ['u', 2, 0]]
    assert [x[0] for x in compare(prog, ref, d2)] == \
        ['side-effecting-units-differ']
    # the noise unit placed before the seeding unit breaks the order
    d3 = json.loads(json.dumps(d))
    u = d3['units']
    u[0], u[1] = u[1], u[0]
    u[2]['inputs'][0] = ['u', 0, 0]
    kinds = [x[0] for x in compare(prog, ref, d3)]
    assert kinds == ['width-first-unit-after-later-unit'], kinds
    # form: an output rate that differs from the unit rate, a control slot
    # that no unit produces
    d4 = json.loads(json.dumps(d))
    d4['units'][2]['outputs'] = [2, 1]
    d4['params'] = [0.0]
    kinds = [k for k, _ in form_problems(d4)]
    assert 'output-rate-differs-from-unit-rate' in kinds and \
        'control-slots-not-tiled' in kinds, kinds
    # ill-typed programs are refused by the reference
    for bad in ([['sin', 'kr'], ['lpf', 'v0']], [['sin', 'kr'], ['pan', 'v0']]):
        try:
            interpret(dict(prog, stmts=bad))
        except IllTyped:
            pass
        else:
            raise AssertionError(bad)
    return True


if __name__ == '__main__':
    selftest()
    print('xgraph selftest ok')
