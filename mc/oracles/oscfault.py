"""Single-fault enumeration over OSC datagrams and the classification of the
results (property C18, engine E4) - never imports sc3.

`bases(unix_now)`      the base datagrams (built with the strict OSC 1.0 encoder
                       mc.oracles.osc10);
`layout(dgram)`        where the int32 fields and the type tags of a *valid*
                       datagram are;
`faults(dgram)`        every truncation, every int32 field <- INT_VALUES (length
                       fields also <- value + 1..4),
                       every type tag <- TAG_VALUES;
`classify(dgram)`      what the property statement demands for a datagram:

  'valid'          strictly well-formed OSC 1.0 with argument types i f s b T F
                   [ ]: every message must be delivered, in wire order, as
                   [address, *args] with its time;
  'unrecoverable'  the structure cannot be reconstructed - the datagram ends
                   before data that its own type tags / size fields promise
                   (truncation), or a blob / bundle element length is negative
                   or runs past the end of the datagram: nothing may fire;
  'lenient'        malformed in a way receivers are known to tolerate, or where
                   the statement does not decide (missing type tag string,
                   unknown type tag, bad or cut *padding* - this includes the
                   documented zero padding of a final cut float -, trailing
                   bytes, element size 0 or not a multiple of 4, unbalanced
                   array brackets, a packet that is neither message nor
                   bundle, valid packets with non-standard argument types):
                   what fires is a don't-care.

In every class the receiver must return, raise nothing, stay within its step
budget and process the next datagram.  The first deviation met while walking
the datagram front to back decides the class.
"""

import struct

from mc.oracles import osc10

BUNDLE = osc10.BUNDLE_TAG
NTP_UNIX = 2208988800       # seconds from 1900-01-01 to 1970-01-01 (RFC 868)

INT_VALUES = [-2 ** 31, -8, -4, -1, 0, 1, 3, 4, 2 ** 31 - 1]
SIZE_DELTAS = [1, 2, 3, 4]      # length fields are also overstated by 1..4
TAG_VALUES = ['i', 'f', 's', 'b', '[', ']', 'x', '\x00',
              'd', 't', 'r', 'm', 'T', 'N']    # non-standard but known types
DEMANDED_TAGS = frozenset('ifsbTF[]')


def timetag(unix_seconds):
    """OSC timetag (NTP format) of a dyadic unix time."""
    v = (unix_seconds + NTP_UNIX) * 2 ** 32
    assert v == int(v)
    return int(v)


def timetag_to_unix(tt):
    return tt / 2 ** 32 - NTP_UNIX


def bases(unix_future):
    """name -> datagram.  `unix_future`: the unix time used for the one
    bundle that carries a real timetag."""
    m = osc10.encode_message
    b = osc10.encode_bundle
    return {
        'int': m('/a', [1]),
        'float': m('/a', [0.5]),
        'str': m('/a', ['xy']),
        # strings whose length is a multiple of 4 need a whole extra word of
        # padding; something must follow them for a cursor slip to show
        'str4': m('/ab', ['wxyz', 3]),
        'addr4': m('/abc', [1]),
        'blob': m('/a', [b'\x01\x02\x03\x04\x05']),
        'bool': m('/a', [True, False]),
        'array': m('/a', [[1, 2]]),
        'mixed': m('/ab', [2, 'x', b'\x07', 0.25]),
        'bundle2': b(1, [m('/a', [1]), m('/ab', [2])]),
        'nested': b(1, [m('/a', [1]), b(1, [m('/ab', [2])])]),
        'timed': b(timetag(unix_future), [m('/a', [1]), m('/ab', [2])]),
        # every message carries the time tag of the bundle that encloses it
        # directly: nested bundle later than its parent (OSC 1.0 demands
        # inner >= outer), an immediate bundle around a timed one, and two
        # sibling bundles with different tags
        'nested_timed': b(timetag(unix_future), [
            m('/a', [1]),
            b(timetag(unix_future + 32), [m('/ab', [2])])]),
        'imm_timed': b(1, [
            m('/a', [1]), b(timetag(unix_future), [m('/ab', [2])])]),
        # bundles whose LAST element still parses when it is cut short: a
        # message without arguments (loses its whole type tag string) and a
        # message ending in a float (receivers zero-pad a short float); the
        # element-length deviation is met before either is read
        'bundle_noarg': b(1, [m('/a', [1]), m('/ab')]),
        'bundle_float': b(1, [m('/a', [1]), m('/ab', [0.25])]),
        'nested_noarg': b(1, [m('/a', [1]), b(1, [m('/ab')])]),
        'nested_float': b(1, [m('/a', [1]), b(1, [m('/ab', [2, 0.25])])]),
        'siblings': b(1, [
            b(timetag(unix_future), [m('/a', [1])]),
            b(timetag(unix_future + 32), [m('/ab', [2]), m('/a', [3])])]),
        # values of zero length (a string / blob that is only padding / only
        # its size field) followed by something, nested arrays, a message
        # without arguments on its own
        'empty_str': m('/a', ['', 2]),
        'empty_blob': m('/a', [b'', 2]),
        'nested_array': m('/a', [[1, [2, 'x']], 3]),
        'noarg': m('/ab'),
        # a time tag that has already passed when the bundle arrives (the
        # message still carries the time of its bundle), three levels of
        # bundles with three different time tags
        'late': b(timetag(unix_future - 63.75), [m('/a', [1]), m('/ab', [2])]),
        'deep': b(timetag(unix_future), [
            b(timetag(unix_future + 8), [
                b(timetag(unix_future + 16), [m('/a', [1])]),
                m('/ab', [2])]),
            m('/a', [3])]),
    }


# ---------------------------------------------------------------------------
# layout of a valid datagram

def layout(dgram):
    """-> {'ints': [[offset, role]], 'tags': [offset]} with role in
    'arg' 'blob-size' 'elem-size'.  The datagram must be strictly valid."""
    d = bytes(dgram)
    osc10.decode(d)
    ints, tags = [], []

    def string_end(i):
        j = d.index(b'\x00', i)
        return i + osc10.pad4(j - i + 1)

    def message(start, end):
        i = string_end(start)
        tstart = i
        tend = string_end(i)
        tagstr = d[tstart:d.index(b'\x00', tstart)].decode('ascii')
        i = tend
        for k, t in enumerate(tagstr[1:]):
            tags.append(tstart + 1 + k)
            if t == 'i':
                ints.append([i, 'arg'])
                i += 4
            elif t in 'frmc':
                i += 4
            elif t in 'dht':
                i += 8
            elif t in 'sS':
                i = string_end(i)
            elif t == 'b':
                ints.append([i, 'blob-size'])
                n = struct.unpack_from('>i', d, i)[0]
                i += 4 + osc10.pad4(n)
        assert i == end, (i, end)

    def packet(start, end):
        if d[start:start + 8] == BUNDLE:
            i = start + 16
            while i < end:
                ints.append([i, 'elem-size'])
                n = struct.unpack_from('>i', d, i)[0]
                packet(i + 4, i + 4 + n)
                i += 4 + n
        else:
            message(start, end)

    packet(0, len(d))
    return {'ints': ints, 'tags': tags}


def faults(dgram):
    """-> list of (descriptor, bytes) - every single fault of the menu."""
    d = bytes(dgram)
    lay = layout(d)
    out = []
    for n in range(len(d)):
        out.append((['trunc', n], d[:n]))
    for off, role in lay['ints']:
        cur = struct.unpack_from('>i', d, off)[0]
        vals = list(INT_VALUES)
        if role != 'arg':
            vals += [cur + k for k in SIZE_DELTAS if cur + k not in vals]
        for v in vals:
            if v == cur:
                continue
            out.append((['int', off, role, v],
                        d[:off] + struct.pack('>i', v) + d[off + 4:]))
    for off in lay['tags']:
        for t in TAG_VALUES:
            if d[off:off + 1] == t.encode('latin-1'):
                continue
            out.append((['tag', off, t],
                        d[:off] + t.encode('latin-1') + d[off + 1:]))
    return out


# ---------------------------------------------------------------------------
# classification

class _Unrec(Exception):
    pass


class _Lenient(Exception):
    pass


def _string(d, i, end, what):
    j = d.find(b'\x00', i, end)
    if j < 0:
        raise _Unrec(f'cut: {what} is not terminated')
    stop = i + osc10.pad4(j - i + 1)
    if stop > end:
        raise _Lenient(f'padding of {what} cut')
    if any(d[j:stop]):
        raise _Lenient(f'non-zero padding after {what}')
    return d[i:j], stop


def _need(i, n, end, what):
    if end - i < n:
        raise _Unrec(f'cut: {what}: {n} bytes promised, {max(end - i, 0)} '
                     'left')


def _message(d, start, end):
    _, i = _string(d, start, end, 'address')
    if i == end:
        raise _Lenient('no type tag string')
    tags, i = _string(d, i, end, 'type tag string')
    if not tags.startswith(b','):
        raise _Lenient('type tag string does not start with ","')
    depth = 0
    for t in tags[1:].decode('latin-1'):
        if t in 'irmc':
            _need(i, 4, end, f'argument {t}')
            i += 4
        elif t == 'f':
            if end - i < 4:
                raise _Lenient('final float cut (documented zero padding)')
            i += 4
        elif t in 'dht':
            _need(i, 8, end, f'argument {t}')
            i += 8
        elif t in 'sS':
            _, i = _string(d, i, end, 'string argument')
        elif t == 'b':
            _need(i, 4, end, 'blob size')
            n = struct.unpack_from('>i', d, i)[0]
            if n < 0:
                raise _Unrec(f'negative: blob size {n}')
            if i + 4 + n > end:
                raise _Unrec(f'oversize: blob of {n} bytes runs past the end')
            stop = i + 4 + osc10.pad4(n)
            if stop > end:
                raise _Lenient('blob padding cut')
            if any(d[i + 4 + n:stop]):
                raise _Lenient('non-zero blob padding')
            i = stop
        elif t == '[':
            depth += 1
        elif t == ']':
            depth -= 1
            if depth < 0:
                raise _Lenient('unbalanced "]"')
        elif t in 'TFNI':
            pass
        else:
            raise _Lenient(f'unknown type tag {t!r}')
    if depth:
        raise _Lenient('unbalanced "["')
    if i != end:
        raise _Lenient('bytes left after the last argument')


def _packet(d, start, end, top):
    n = end - start
    if d[start:start + 8] == BUNDLE and n >= 8:
        _need(start + 8, 8, end, 'bundle timetag')
        i = start + 16
        while i < end:
            _need(i, 4, end, 'element size')
            size = struct.unpack_from('>i', d, i)[0]
            if size < 0:
                raise _Unrec(f'negative: bundle element size {size}')
            if i + 4 + size > end:
                raise _Unrec(f'oversize: bundle element of {size} bytes runs '
                             'past the end')
            if size == 0 or size % 4:
                raise _Lenient(f'element size {size} not a positive multiple '
                               'of 4')
            _packet(d, i + 4, i + 4 + size, False)
            i += 4 + size
    elif d[start:start + 1] == b'/':
        _message(d, start, end)
    elif top and (n < 4 or BUNDLE.startswith(d[start:end])):
        raise _Unrec('cut: shorter than any OSC packet / bundle tag cut')
    else:
        raise _Lenient('neither message nor bundle')


def _plain(v):
    if isinstance(v, list):
        return [_plain(x) for x in v]
    return v


def classify(dgram):
    """-> {'class': 'valid', 'messages': [[timetag|None, [address, *args]]]}
        | {'class': 'unrecoverable' | 'lenient', 'why': str}
    For 'unrecoverable' `why` starts with 'cut:', 'negative:' or 'oversize:'."""
    d = bytes(dgram)
    try:
        s = osc10.decode(d)
    except osc10.OscError as e:
        strict_err = str(e)
    else:
        msgs = []

        def walk(x, tt):
            if x['type'] == 'message':
                msgs.append([tt, x['tags'], [x['address']] +
                             _plain(x['args'])])
            else:
                for e in x['elements']:
                    walk(e, x['timetag'])
        walk(s, None)
        if all(set(tags) <= DEMANDED_TAGS for _, tags, _ in msgs):
            return {'class': 'valid',
                    'messages': [[tt, m] for tt, _, m in msgs]}
        return {'class': 'lenient', 'why': 'non-standard argument types'}
    try:
        _packet(d, 0, len(d), True)
    except _Unrec as e:
        return {'class': 'unrecoverable', 'why': str(e)}
    except _Lenient as e:
        return {'class': 'lenient', 'why': str(e)}
    # the tolerant walk found nothing although the strict decoder refused:
    # (e.g. invalid UTF-8) - the statement does not decide.
    return {'class': 'lenient', 'why': 'strict decoder: ' + strict_err}


def selftest():
    b = bases(1024.75)
    for name, d in b.items():
        c = classify(d)
        assert c['class'] == 'valid', (name, c)
        assert layout(d)
    assert classify(b['int'])['messages'] == [[None, ['/a', 1]]]
    assert classify(b['nested'])['messages'] == [[1, ['/a', 1]],
                                                 [1, ['/ab', 2]]]
    assert classify(b['array'])['messages'] == [[None, ['/a', [1, 2]]]]
    assert timetag_to_unix(classify(b['timed'])['messages'][0][0]) == 1024.75
    assert [timetag_to_unix(t) if t != 1 else 1 for t, _ in
            classify(b['siblings'])['messages']] == [1024.75, 1056.75, 1056.75]
    assert [timetag_to_unix(t) if t != 1 else 1 for t, _ in
            classify(b['imm_timed'])['messages']] == [1, 1024.75]
    assert [timetag_to_unix(t) for t, _ in
            classify(b['nested_timed'])['messages']] == [1024.75, 1056.75]
    assert [timetag_to_unix(t) for t, _ in
            classify(b['deep'])['messages']] == [1040.75, 1032.75, 1024.75]
    assert classify(b['empty_blob'])['messages'] == [[None, ['/a', b'', 2]]]
    assert classify(b['nested_array'])['messages'] == \
        [[None, ['/a', [1, [2, 'x']], 3]]]
    assert layout(b['bundle2'])['ints'] == [[16, 'elem-size'], [28, 'arg'],
                                            [32, 'elem-size'], [44, 'arg']]
    assert layout(b['blob'])['ints'] == [[8, 'blob-size']]
    assert layout(b['mixed'])['tags'] == [5, 6, 7, 8]

    def cls(x):
        return classify(x)['class']
    i = b['int']                        # '/a\0\0,i\0\0' + 00000001
    assert cls(i[:11]) == 'unrecoverable' and cls(i[:8]) == 'unrecoverable'
    assert cls(i[:4]) == 'lenient'      # address only: old style message
    assert cls(i[:3]) == 'lenient' and cls(b'') == 'unrecoverable'
    assert cls(i[:2]) == 'unrecoverable'
    assert cls(i[:6]) == 'unrecoverable'    # type tags not terminated
    assert cls(i[:7]) == 'lenient'      # only the padding of the tags is cut
    assert cls(b['float'][:10]) == 'lenient'    # documented float padding
    assert cls(b['str'][:10]) == 'unrecoverable'
    assert cls(b['blob'][:14]) == 'unrecoverable'
    assert cls(b['blob'][:18]) == 'lenient'     # only blob padding missing
    bl = b['blob']
    for v, want in ((-1, 'unrecoverable'), (-4, 'unrecoverable'),
                    (2 ** 31 - 1, 'unrecoverable'), (4, 'lenient'),
                    (0, 'lenient'), (8, 'valid')):
        x = bl[:8] + struct.pack('>i', v) + bl[12:]
        assert cls(x) == want, (v, cls(x))
    b2 = b['bundle2']
    for v, want in ((-4, 'unrecoverable'), (-2 ** 31, 'unrecoverable'),
                    (2 ** 31 - 1, 'unrecoverable'), (0, 'lenient'),
                    (3, 'lenient'), (4, 'lenient'), (1, 'lenient')):
        x = b2[:16] + struct.pack('>i', v) + b2[20:]
        assert cls(x) == want, (v, classify(x))
    assert cls(b2[:12]) == 'unrecoverable' and cls(b2[:5]) == 'unrecoverable'
    assert cls(b2[:16]) == 'valid'      # empty bundle
    assert cls(b2[:18]) == 'unrecoverable' and cls(b2[:24]) == 'unrecoverable'
    assert cls(b'#bundle\x01' + b2[8:]) == 'lenient'
    assert cls(i[:5] + b'f' + i[6:]) == 'valid'
    assert cls(i[:5] + b'x' + i[6:]) == 'lenient'
    assert cls(i[:5] + b's' + i[6:]) == 'lenient'
    assert cls(i[:5] + b'b' + i[6:]) == 'unrecoverable'     # size 1, no data
    assert cls(i[:5] + b'[' + i[6:]) == 'lenient'
    assert len(faults(i)) == 12 + 8 + len(TAG_VALUES) - 1
    for name in ('bundle_noarg', 'bundle_float', 'nested_noarg',
                 'nested_float'):
        d = b[name]
        for k in (1, 2, 3, 4):          # cut short: the last element(s)
            assert classify(d[:-k])['why'].startswith('oversize'), (name, k)
        for desc, x in faults(d):       # every overstated element length
            if desc[0] == 'int' and desc[2] == 'elem-size' and \
                    desc[1] > 16 and \
                    desc[3] > struct.unpack_from('>i', d, desc[1])[0]:
                assert classify(x)['why'].startswith('oversize'), (name, desc)
    assert [k[3] for k, _ in faults(b['bundle_float'])
            if k[:2] == ['int', 32]] == INT_VALUES + [13, 14, 15, 16]
    for x in range(256):
        assert cls(bytes([x])) == 'unrecoverable'
    assert cls(b'/\x00') == 'lenient' and cls(b'#b') == 'unrecoverable'
    return True


if __name__ == '__main__':
    selftest()
    print('oscfault selftest ok')
