"""Reference semantics of the *extended* C01 graph programs (used only by
mc/checks/c01.py) and the evaluator of the decoded definition for them.
Never imports sc3.

The base grammar of mc/graphprog.py (shared with C02/C20, frozen) is kept; an
extended program adds

* leaves    R        Rand.new(tag, tag+0.5)       scalar rate, stateful
            X0, X1   the two outputs of In.ar(tag, 2)   (one multi-output,
                     side-effect free but bus-reading and not removable unit)
            T        function parameter t: 'tr' = 0.5    (TrigControl, control)
            U        function parameter u: 'ar' = 0.125  (AudioControl, audio)
* ops       usum3/usum4   Sum3.new / Sum4.new called directly (any operand may
                          be a constant)
            umadd         MulAdd.new(a, m, c) called directly (a may be a
                          constant)
            mix           Mix.new([x0 .. xn-1]), 2 <= n <= 17
            sum           ChannelList([x0 .. xn-1]).sum(), 2 <= n <= 8
            range         x.range(lo, hi)   (x a leaf or a trg value; lo, hi
                          constants): x*(hi-lo)/2 + (hi-lo)/2 + lo for a
                          bipolar x, x*(hi-lo) + lo for a unipolar x (Trig1)
            unipolar      x.unipolar(m) = x.range(0, m)
            bipolar       x.bipolar(m) = x.range(-m, m)
            linlin        LinLin.ar / .kr (x, srclo, srchi, dstlo, dsthi):
                          x*scale + dstlo - scale*srclo,
                          scale = (dsthi-dstlo)/(srchi-srclo)
            trg           Trig1.kr(x, tag): stateful, not removable, atom G<k>
            fs            FreeSelf.kr(x): side-effecting unit, value = x
* sinks     explicit list of output units
            [cls, rate, bus?, xfade?, ch0, ch1 ...] with
            cls in Out ReplaceOut OffsetOut XOut LocalOut, rate 'ar' | 'kr',
            bus / xfade a constant or a control-rate leaf, channels value
            references, leaves or the literal 0 (audio sinks write silence
            for it).
* constants spelled as float / bool (0.0, 1.0, -1.0, -0.0, True, False).

A program is plain data:
    {'x': 1, 'stmts': [[op, arg, ...], ...], 'sinks': [[...], ...],
     'tagbase': int}
"""

from fractions import Fraction

from mc.oracles import poly, scgf, server_ops

# name: (unit class, rate, pure (may be dropped when unreferenced), output)
LEAVES = {
    'A': ('SinOsc', 2, True, 0), 'B': ('SinOsc', 2, True, 0),
    'K': ('SinOsc', 1, True, 0), 'N': ('LFNoise0', 2, False, 0),
    'L': ('Line', 1, False, 0), 'R': ('Rand', 0, False, 0),
    'X0': ('In', 2, False, 0), 'X1': ('In', 2, False, 1),
    'P': ('Control', 1, False, 0), 'I': ('Control', 0, False, 0),
    'T': ('TrigControl', 1, False, 0), 'U': ('AudioControl', 2, False, 0)}
TAG_ORDER = ['A', 'B', 'K', 'N', 'L', 'R', 'X']
PARAMS = {'P': 'p', 'I': 'i', 'T': 't', 'U': 'u'}
PARAM_LEAF = {v: k for k, v in PARAMS.items()}
RANK = {k: v[1] for k, v in LEAVES.items()}
ARITY = {'neg': 1, 'abs': 1, 'add': 2, 'sub': 2, 'mul': 2, 'div': 2,
         'min': 2, 'madd': 3, 'sum3': 3, 'sum4': 4, 'lpf': 1,
         'usum3': 3, 'usum4': 4, 'umadd': 3, 'trg': 1, 'fs': 1,
         'range': 3, 'unipolar': 2, 'bipolar': 2, 'linlin': 5}
NARY = {'mix': (2, 17), 'sum': (2, 8)}
SINKS = {'Out': 1, 'ReplaceOut': 1, 'OffsetOut': 1, 'XOut': 2, 'LocalOut': 0}
NEW_OPS = {'usum3', 'usum4', 'umadd', 'mix', 'trg', 'fs', 'sum', 'range',
           'unipolar', 'bipolar', 'linlin'}
NEW_LEAVES = {'R', 'X0', 'X1', 'T', 'U'}


class IllFormed(Exception):
    """Not a well-formed graph function by the rule of DESIGN.md C01, or a
    program whose meaning the property does not decide."""


def is_const(a):
    return isinstance(a, (int, float, bool))


def is_val(a):
    return isinstance(a, str) and a[0] == 'v' and a[1:].isdigit()


def unit_key(leaf):
    """Name of the unit a leaf belongs to (X0 and X1 share one In unit)."""
    return 'X' if leaf in ('X0', 'X1') else leaf


def tag_of(prog, name):
    """float32-exact tag constant of a tagged unit: a leaf unit ('A', 'X'
    ...) or a statement unit ('F<k>' LPF, 'G<k>' Trig1)."""
    base = prog.get('tagbase', 100)
    if name in TAG_ORDER:
        return float(base + TAG_ORDER.index(name))
    return float(base + 16 + int(name[1:]))


def leaves_of(prog):
    """Leaves in order of first use (statements, then sinks)."""
    out = []
    rows = [st[1:] for st in prog['stmts']] + \
        [sk[2:] for sk in prog.get('sinks', [])]
    for row in rows:
        for a in row:
            if isinstance(a, str) and a in LEAVES and a not in out:
                out.append(a)
    return out


def interpret(prog):
    """-> dict(vals, nf (normal-form rank), syn (syntactic rank), sinks,
    leaves, tagged={name: [input polys]}, required={unit names that must
    occur exactly once}, nontrivial, flags)."""
    vals, nf, syn = [], [], []
    tagged = {}
    required = set()
    effects = []
    flags = set()

    def rank_of(p):
        r = 0
        for n in poly.atoms_of(p):
            r = max(r, _atom_rank(n))
        return r

    def ev(a):
        """-> (poly, nf rank, syn rank)"""
        if is_const(a):
            if isinstance(a, bool) or isinstance(a, float):
                flags.add('const-spelling')
            return poly.const(Fraction(float(a))), 0, 0
        if is_val(a):
            k = int(a[1:])
            if k >= len(vals):
                raise IllFormed(f'forward reference {a}')
            return vals[k], nf[k], syn[k]
        if a not in LEAVES:
            raise IllFormed(f'unknown operand {a!r}')
        if a in NEW_LEAVES:
            flags.add('leaf-' + a)
        return poly.atom(a), RANK[a], RANK[a]

    for k, st in enumerate(prog['stmts']):
        op, args = st[0], st[1:]
        if op in NARY:
            if not NARY[op][0] <= len(args) <= NARY[op][1]:
                raise IllFormed(f'{op} of {NARY[op]} channels')
        elif op not in ARITY or len(args) != ARITY[op]:
            raise IllFormed(f'arity of {st}')
        if op in NEW_OPS:
            flags.add('op-' + op)
        if all(is_const(a) for a in args):
            raise IllFormed('constant-only statement')
        es = [ev(a) for a in args]
        ps = [e[0] for e in es]
        if all(poly.is_const(p) for p in ps):
            # the library may hold plain numbers here (x*0 folds to 0.0):
            # plain Python arithmetic, not decided by the property
            raise IllFormed('all operands are constant-valued')
        s = max(e[2] for e in es)
        if len(set(map(repr, args))) < len(args):
            flags.add('shared')
        if any(is_const(a) and float(a) in (0.0, 1.0, -1.0) for a in args):
            flags.add('shortcut')
        if op == 'neg':
            v = poly.neg(ps[0])
        elif op == 'add':
            v = poly.add(ps[0], ps[1])
        elif op == 'sub':
            v = poly.sub(ps[0], ps[1])
        elif op == 'mul':
            v = poly.mul(ps[0], ps[1])
        elif op == 'div':
            if poly.is_const(ps[1]) and poly.const_value(ps[1]) == 0:
                raise IllFormed('division by a zero signal')
            v = poly.div(ps[0], ps[1])
        elif op in ('madd', 'umadd'):
            if op == 'madd' and poly.is_const(ps[0]):
                raise IllFormed('madd is a method of a signal')
            v = poly.add(poly.mul(ps[0], ps[1]), ps[2])
        elif op in ('range', 'unipolar', 'bipolar'):
            x = args[0]
            if not all(is_const(a) for a in args[1:]):
                raise IllFormed('range bounds are constants')
            if is_val(x):
                if prog['stmts'][int(x[1:])][0] != 'trg':
                    raise IllFormed('range of a computed value: which '
                                    'signal range applies is not tracked')
                uni = True
            elif is_const(x):
                raise IllFormed('range is a method of a signal')
            else:
                uni = False
            if op == 'range':
                lo, hi = ps[1], ps[2]
            elif op == 'unipolar':
                lo, hi = poly.ZERO, ps[1]
            else:
                lo, hi = poly.neg(ps[1]), ps[1]
            w = poly.sub(hi, lo)
            if uni:
                v = poly.add(poly.mul(ps[0], w), lo)
            else:
                h = poly.mul(w, poly.const(Fraction(1, 2)))
                v = poly.add(poly.mul(ps[0], h), poly.add(h, lo))
        elif op == 'linlin':
            if is_const(args[0]) or poly.is_const(ps[0]) or \
                    not all(is_const(a) for a in args[1:]):
                raise IllFormed('LinLin of a signal with constant ranges')
            a, b, c, e = [poly.const_value(p) for p in ps[1:]]
            if a == b:
                raise IllFormed('empty source range')
            scale = (e - c) / (b - a)
            v = poly.add(poly.mul(ps[0], poly.const(scale)),
                         poly.const(c - scale * a))
        elif op in ('sum3', 'sum4', 'usum3', 'usum4', 'mix', 'sum'):
            v = poly.ZERO
            for p in ps:
                v = poly.add(v, p)
        elif op == 'abs':
            if poly.is_const(ps[0]):
                raise IllFormed('opaque operator on a constant')
            v = poly.app('un5', ps[0])
        elif op == 'min':
            if args[0] not in LEAVES:
                raise IllFormed('min needs a signal leaf as receiver')
            v = poly.app('bin12', ps[0], ps[1])
        elif op == 'lpf':
            if es[0][1] < 2:
                raise IllFormed('LPF.ar needs an audio-rate input')
            name = f'F{k}'
            tagged[name] = [ps[0]]
            v = poly.atom(name)
            s = 2
        elif op == 'trg':
            if poly.is_const(ps[0]):
                raise IllFormed('trigger unit on a constant')
            name = f'G{k}'
            tagged[name] = [ps[0]]
            required.add(name)
            v = poly.atom(name)
            s = 1
        elif op == 'fs':
            if poly.is_const(ps[0]):
                raise IllFormed('FreeSelf on a constant')
            effects.append(('FreeSelf', 1, (), (poly.show(ps[0]),)))
            v = ps[0]
        vals.append(v)
        nf.append(rank_of(v))
        syn.append(s)

    sinks = list(effects)
    for sk in prog.get('sinks', []):
        cls, rate = sk[0], sk[1]
        if cls not in SINKS or rate not in ('ar', 'kr'):
            raise IllFormed(f'sink {sk}')
        if cls == 'OffsetOut' and rate == 'kr':
            raise IllFormed('OffsetOut has no control-rate form')
        nfix = SINKS[cls]
        fixed, chans = sk[2:2 + nfix], sk[2 + nfix:]
        if not chans:
            raise IllFormed('sink without channels')
        fx = []
        for a in fixed:
            p, r, s = ev(a)
            if s > 1:
                raise IllFormed('audio-rate bus / xfade is not generated')
            fx.append(poly.show(p))
        cs = []
        for a in chans:
            p, r, s = ev(a)
            if rate == 'ar':
                if is_const(a):
                    if float(a) != 0.0:
                        raise IllFormed('audio sink of a non-zero constant')
                    flags.add('silence')
                elif r < 2:
                    raise IllFormed('audio sink needs audio-rate channels')
            cs.append(poly.show(p))
        if cls != 'Out' or any(not is_const(a) for a in fixed):
            flags.add('sink-' + cls)
        sinks.append((cls, 2 if rate == 'ar' else 1, tuple(fx), tuple(cs)))

    leaves = leaves_of(prog)
    for lf in leaves:
        if not LEAVES[lf][2] and lf not in PARAMS:
            required.add(unit_key(lf))
    # base rule of mc/graphprog.py for the rest
    uses = {}
    for row in [st[1:] for st in prog['stmts']] + \
            [sk[2:] for sk in prog.get('sinks', [])]:
        for a in row:
            if not is_const(a):
                uses[a] = uses.get(a, 0) + 1
    if any(c > 1 for c in uses.values()):
        flags.add('shared')
    if any(f'v{k}' not in uses for k in range(len(vals))):
        flags.add('dead')
    return {'vals': vals, 'nf': nf, 'syn': syn, 'sinks': sinks,
            'leaves': leaves, 'tagged': tagged, 'required': required,
            'nontrivial': bool(flags), 'flags': sorted(flags)}


def _atom_rank(name):
    if name in RANK:
        return RANK[name]
    if name[0] == 'F' and name[1:].isdigit():
        return 2
    if name[0] == 'G' and name[1:].isdigit():
        return 1
    # opaque application: max over the atoms it mentions (by name scan)
    r = 0
    for leaf, rk in RANK.items():
        if leaf in name:
            r = max(r, rk)
    if 'F' in name:
        r = 2
    if 'G' in name:
        r = max(r, 1)
    return r


# --------------------------------------------------------------------------
# Meaning of a decoded definition
# --------------------------------------------------------------------------

ARITH = {'BinaryOpUGen', 'UnaryOpUGen', 'MulAdd', 'Sum3', 'Sum4'}
CONTROLS = {'Control', 'TrigControl', 'AudioControl', 'LagControl'}
# tagged unit class -> input slot of the tag constant
TAGPOS = {'SinOsc': 0, 'LFNoise0': 0, 'Line': 0, 'Rand': 0, 'In': 0,
          'LPF': 1, 'Trig1': 1}
STMT_UNITS = {'LPF': ('F', 2), 'Trig1': ('G', 1)}


def evaluate(d, prog):
    problems = []
    tags = {}
    for name in TAG_ORDER:
        tags[tag_of(prog, name)] = name
    for k, st in enumerate(prog['stmts']):
        if st[0] == 'lpf':
            tags[tag_of(prog, f'F{k}')] = f'F{k}'
        elif st[0] == 'trg':
            tags[tag_of(prog, f'G{k}')] = f'G{k}'
    ctl = {idx: nm for nm, idx in d['param_names']}
    consts = d['constants']
    vals = []
    units = {}       # tagged unit name -> count
    tagged = {}      # statement unit name -> [input polys]
    sinks = []

    def inval(inp):
        if inp[0] == 'c':
            return poly.const(Fraction(consts[inp[1]])), 0
        _, u, o = inp
        return vals[u][o], d['units'][u]['outputs'][o]

    for i, u in enumerate(d['units']):
        name = u['name']
        ins = [inval(x) for x in u['inputs']]
        ps = [p for p, _ in ins]
        inrate = max([r for _, r in ins], default=0)
        if name in ARITH:
            if u['rate'] != inrate:
                problems.append((
                    'arith-rate-not-max-of-inputs',
                    f'unit {i} {name} special {u["special"]} has rate '
                    f'{u["rate"]}, inputs have rates '
                    f'{[r for _, r in ins]}'))
            if u['outputs'] != [u['rate']]:
                problems.append(('output-rate-inconsistent',
                                 f'unit {i} {name} outputs {u["outputs"]} '
                                 f'rate {u["rate"]}'))
        if name == 'BinaryOpUGen':
            if len(ps) != 2:
                problems.append(('bad-arity', f'unit {i} {name}'))
                vals.append([poly.atom(f'?{i}')])
                continue
            s = u['special']
            if s == server_ops.BIN['add']:
                v = poly.add(*ps)
            elif s == server_ops.BIN['sub']:
                v = poly.sub(*ps)
            elif s == server_ops.BIN['mul']:
                v = poly.mul(*ps)
            elif s == server_ops.BIN['fdiv']:
                v = poly.div(*ps)
            else:
                v = poly.app(f'bin{s}', *ps)
            vals.append([v])
        elif name == 'UnaryOpUGen':
            if len(ps) != 1:
                problems.append(('bad-arity', f'unit {i} {name}'))
                vals.append([poly.atom(f'?{i}')])
                continue
            s = u['special']
            vals.append([poly.neg(ps[0]) if s == server_ops.UN['neg']
                         else poly.app(f'un{s}', ps[0])])
        elif name == 'MulAdd':
            if len(ps) != 3:
                problems.append(('bad-arity', f'unit {i} {name}'))
                vals.append([poly.atom(f'?{i}')])
                continue
            vals.append([poly.add(poly.mul(ps[0], ps[1]), ps[2])])
        elif name in ('Sum3', 'Sum4'):
            if len(ps) != int(name[-1]):
                problems.append(('bad-arity', f'unit {i} {name}'))
            v = poly.ZERO
            for p in ps:
                v = poly.add(v, p)
            vals.append([v])
        elif name == 'DC':
            vals.append(list(ps))
        elif name in CONTROLS:
            row = []
            for o in range(len(u['outputs'])):
                slot = u['special'] + o
                nm = ctl.get(slot)
                leaf = PARAM_LEAF.get(nm)
                if leaf is None:
                    row.append(poly.atom(f'ctl{slot}'))
                    continue
                row.append(poly.atom(leaf))
                want_cls, want = LEAVES[leaf][0], LEAVES[leaf][1]
                if name != want_cls or u['outputs'][o] != want or \
                        u['rate'] != want:
                    problems.append((
                        'leaf-rate-changed',
                        f'control {nm}: {name} rate {u["rate"]}/'
                        f'{u["outputs"][o]}, created {want_cls} {want}'))
            vals.append(row)
        elif name in TAGPOS:
            tagpos = TAGPOS[name]
            tinp = u['inputs'][tagpos] if len(u['inputs']) > tagpos else None
            tname = None
            if tinp is not None and tinp[0] == 'c':
                tname = tags.get(consts[tinp[1]])
            if tname is None:
                problems.append(('untagged-unit',
                                 f'unit {i} {name} inputs {u["inputs"]}'))
                vals.append([poly.atom(f'?{i}.{o}')
                             for o in range(len(u['outputs']))])
                continue
            units[tname] = units.get(tname, 0) + 1
            if name in STMT_UNITS:
                want_cls = name if tname[0] == STMT_UNITS[name][0] else '?'
                want_rate = STMT_UNITS[name][1]
                want_outs = [want_rate]
                tagged[tname] = [ps[0]]
                row = [poly.atom(tname)]
            elif tname == 'X':
                want_cls, want_rate, want_outs = 'In', 2, [2, 2]
                row = [poly.atom('X0'), poly.atom('X1')]
            else:
                want_cls, want_rate = LEAVES[tname][0], LEAVES[tname][1]
                want_outs = [want_rate]
                row = [poly.atom(tname)]
            if name != want_cls or u['rate'] != want_rate or \
                    u['outputs'] != want_outs:
                problems.append((
                    'leaf-rate-changed',
                    f'unit {i} {name} rate {u["rate"]} outputs '
                    f'{u["outputs"]}; created as {want_cls} rate '
                    f'{want_rate} outputs {want_outs}'))
                row = [poly.atom(f'?{i}.{o}')
                       for o in range(len(u['outputs']))]
            vals.append(row)
        elif name in SINKS:
            if u['outputs']:
                problems.append(('out-has-outputs', f'unit {i}'))
            nfix = SINKS[name]
            sinks.append((name, u['rate'],
                          tuple(poly.show(p) for p in ps[:nfix]),
                          tuple(poly.show(p) for p in ps[nfix:])))
            vals.append([])
        elif name == 'FreeSelf':
            if u['outputs'] != [1] or u['rate'] != 1:
                problems.append(('leaf-rate-changed',
                                 f'unit {i} FreeSelf rate {u["rate"]} '
                                 f'outputs {u["outputs"]}'))
            sinks.append((name, u['rate'], (),
                          tuple(poly.show(p) for p in ps)))
            vals.append([poly.atom(f'?{i}')])
        else:
            problems.append(('unexpected-unit', f'unit {i} {name}'))
            vals.append([poly.atom(f'?{i}.{o}')
                         for o in range(len(u['outputs']))])
    return {'problems': problems, 'sinks': sinks, 'units': units,
            'tagged': tagged}


def compare(prog, ref, d):
    """[(kind, expected, observed, detail)]"""
    dis = []
    bad = scgf.validate(d)
    if bad:
        return [('scgf-integrity', [], bad[:4], '')]
    ev = evaluate(d, prog)
    for kind, detail in ev['problems']:
        dis.append((kind, None, detail, ''))
    want = sorted(ref['sinks'], key=repr)
    got = sorted(ev['sinks'], key=repr)
    if got != want:
        plain = all(s[0] == 'Out' for s in want + got)
        dis.append(('output-units-differ' if plain else
                    'effect-units-differ', want, got,
                    'multiset of (class, rate, bus/xfade, channel normal '
                    'forms)'))
    created = {unit_key(lf) for lf in ref['leaves'] if lf not in PARAMS}
    created |= set(ref['tagged'])
    for name in sorted(created):
        n = ev['units'].get(name, 0)
        if n > 1:
            dis.append(('atom-duplicated', 1, n, name))
        if n == 0 and name in ref['required']:
            dis.append(('stateful-unit-dropped', 1, 0, name))
    for name, n in sorted(ev['units'].items()):
        if name not in created:
            dis.append(('atom-invented', 0, n, name))
    for name, ps in sorted(ev['tagged'].items()):
        rp = ref['tagged'].get(name)
        if rp is None or [poly.canon(p) for p in rp] != \
                [poly.canon(p) for p in ps]:
            dis.append(('filter-input-differs',
                        None if rp is None else [poly.show(p) for p in rp],
                        [poly.show(p) for p in ps], name))
    return dis


# --------------------------------------------------------------------------
# Census of units that must never be dropped (typed from the SuperCollider
# class documentation: units with a done action, units that free / pause
# nodes, write to buses / buffers / disk, send messages to the client, set or
# consume the synth's random generator).  module, class, constructor, args,
# number of outputs.
# --------------------------------------------------------------------------

CENSUS = [
    ('line', 'Line', 'ar', [0.0, 1.0, 1.0, 2], 1),
    ('line', 'Line', 'kr', [0.0, 1.0, 1.0, 2], 1),
    ('line', 'XLine', 'ar', [1.0, 2.0, 1.0, 2], 1),
    ('line', 'XLine', 'kr', [1.0, 2.0, 1.0, 2], 1),
    ('envgen', 'Linen', 'kr', [1.0, 0.01, 1.0, 1.0, 2], 1),
    ('envgen', 'FreeSelf', 'kr', ['K'], 1),
    ('envgen', 'PauseSelf', 'kr', ['K'], 1),
    ('envgen', 'FreeSelfWhenDone', 'kr', ['L'], 1),
    ('envgen', 'PauseSelfWhenDone', 'kr', ['L'], 1),
    ('envgen', 'Free', 'kr', ['K', 1000], 1),
    ('envgen', 'Pause', 'kr', ['K', 1000], 1),
    ('envgen', 'Done', 'kr', ['L'], 1),
    ('filter', 'DetectSilence', 'ar', ['A', 0.0001, 0.1, 2], 1),
    ('filter', 'DetectSilence', 'kr', ['K', 0.0001, 0.1, 2], 1),
    ('oscillators', 'LFGauss', 'ar', [1, 0.1, 0.0, 0, 2], 1),
    ('oscillators', 'LFGauss', 'kr', [1, 0.1, 0.0, 0, 2], 1),
    ('demand', 'Duty', 'kr', [1.0, 0.0, 1.0, 2], 1),
    ('demand', 'TDuty', 'kr', [1.0, 0.0, 1.0, 2], 1),
    ('trig', 'SendTrig', 'kr', ['K', 7, 0.5], 0),
    ('trig', 'SendTrig', 'ar', ['A', 7, 0.5], 0),
    ('poll', 'Poll', 'kr', ['K', 'K', 'x', -1], 1),
    ('testugens', 'CheckBadValues', 'kr', ['K', 0, 2], 1),
    ('bufio', 'RecordBuf', 'ar', ['A', 3], 1),
    ('bufio', 'BufWr', 'ar', ['A', 3, 'A'], 1),
    ('bufio', 'ScopeOut', 'ar', ['A', 3], 1),
    ('diskio', 'DiskOut', 'ar', [3, 'A'], 1),
    ('delays', 'DelTapWr', 'ar', [3, 'A'], 1),
    ('noise', 'RandSeed', 'kr', ['K', 56789], 1),
    ('noise', 'RandID', 'kr', [1], 1),
    ('noise', 'WhiteNoise', 'ar', [], 1),
    ('noise', 'WhiteNoise', 'kr', [], 1),
    ('noise', 'PinkNoise', 'ar', [], 1),
    ('noise', 'BrownNoise', 'ar', [], 1),
    ('noise', 'ClipNoise', 'ar', [], 1),
    ('noise', 'GrayNoise', 'ar', [], 1),
    ('noise', 'Dust', 'ar', [7.0], 1),
    ('noise', 'Dust2', 'kr', [7.0], 1),
    ('noise', 'LFNoise0', 'kr', [7.0], 1),
    ('noise', 'LFNoise1', 'ar', [7.0], 1),
    ('noise', 'LFNoise2', 'kr', [7.0], 1),
    ('noise', 'LFClipNoise', 'ar', [7.0], 1),
    ('noise', 'TRand', 'kr', [0.0, 1.0, 'K'], 1),
    ('noise', 'TIRand', 'kr', [0, 7, 'K'], 1),
    ('noise', 'TExpRand', 'kr', [0.01, 1.0, 'K'], 1),
    ('noise', 'CoinGate', 'kr', [0.5, 'K'], 1),
    ('noise', 'Rand', 'new', [0.0, 7.0], 1),
    ('noise', 'IRand', 'new', [0, 7], 1),
    ('noise', 'ExpRand', 'new', [0.01, 7.0], 1),
    ('noise', 'LinRand', 'new', [0.0, 7.0, 0], 1),
    ('noise', 'NRand', 'new', [0.0, 7.0, 2], 1),
    ('inout', 'Out', 'ar', [7, 'A'], 0),
    ('inout', 'Out', 'kr', [7, 'K'], 0),
    ('inout', 'ReplaceOut', 'ar', [7, 'A'], 0),
    ('inout', 'OffsetOut', 'ar', [7, 'A'], 0),
    ('inout', 'XOut', 'kr', [7, 0.5, 'K'], 0),
    ('inout', 'LocalOut', 'ar', ['A'], 0),
]
CENSUS_USES = ['unused', 'dead-neg', 'dead-mul', 'dead-chain', 'dead-pure',
               'live']
CENSUS_RATE = {'ar': 2, 'kr': 1, 'ir': 0, 'new': 0}


def census_cases():
    out = []
    for row, (mod, cls, ctor, args, nout) in enumerate(CENSUS):
        for use in CENSUS_USES:
            if nout == 0 and use != 'unused':
                continue
            out.append({'census': row, 'cls': cls, 'ctor': ctor,
                        'use': use})
    return out


def census_expect(case, d, tagbase=100):
    """Disagreements of a decoded census definition: the unit under test
    occurs exactly once, at the rate it was created with."""
    mod, cls, ctor, args, nout = CENSUS[case['census']]
    dis = []
    bad = scgf.validate(d)
    if bad:
        return [('scgf-integrity', [], bad[:4], '')]
    found = [u for u in d['units'] if u['name'] == cls]
    # the carrier graph adds one Out.ar(0, SinOsc.ar): not counted
    if cls == 'Out':
        found = [u for u in found
                 if not (u['inputs'] and u['inputs'][0][0] == 'c' and
                         d['constants'][u['inputs'][0][1]] == 0.0)]
    want_rate = CENSUS_RATE[ctor]
    if len(found) != 1:
        dis.append(('stateful-unit-dropped' if not found else
                    'atom-duplicated', 1, len(found), cls))
    for u in found:
        if u['rate'] != want_rate or \
                any(o != want_rate for o in u['outputs']) or \
                len(u['outputs']) != nout:
            dis.append(('leaf-rate-changed',
                        [want_rate, [want_rate] * nout],
                        [u['rate'], u['outputs']], cls))
    if case['use'] == 'live':
        outs = [u for u in d['units'] if u['name'] == 'Out' and
                u['rate'] == 1]
        ok = False
        for o in outs:
            for inp in o['inputs'][1:]:
                if inp[0] == 'u' and d['units'][inp[1]]['name'] == cls:
                    ok = True
        if not ok:
            dis.append(('output-units-differ', f'Out.kr(1, {cls})',
                        [[o['name'], o['inputs']] for o in outs], cls))
    return dis


def selftest():
    p = {'x': 1, 'tagbase': 100,
         'stmts': [['usum4', 'A', 0, 'K', 'A'], ['trg', 'v0'],
                   ['fs', 'v1']],
         'sinks': [['XOut', 'ar', 'K', 0.5, 'v0', 0]]}
    r = interpret(p)
    assert poly.show(r['vals'][0]) == '2*A + K'
    assert r['nf'] == [2, 1, 1] and r['required'] == {'G1'}
    assert ('FreeSelf', 1, (), ('G1',)) in r['sinks']
    assert ('XOut', 2, ('K', '1/2'), ('2*A + K', '0')) in r['sinks']
    assert tag_of(p, 'X') == 106.0 and tag_of(p, 'G1') == 117.0
    q = interpret({'x': 1, 'stmts': [['range', 'A', 0, 2], ['trg', 'A'],
                                     ['range', 'v1', 1, 2],
                                     ['linlin', 'K', -1, 1, 0, 2],
                                     ['bipolar', 'K', 2]], 'sinks': []})
    assert [poly.show(v) for v in q['vals']] == [
        '1 + A', 'G1', '1 + G1', '1 + K', '2*K']
    try:
        interpret({'x': 1, 'stmts': [['add', 'K', 1]],
                   'sinks': [['Out', 'ar', 0, 'v0']]})
        raise AssertionError('control-rate channel accepted by Out.ar')
    except IllFormed:
        pass
    assert len(census_cases()) > 200
