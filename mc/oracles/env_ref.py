"""Reference semantics of envelope specifications (C19).

Written from the Env / EnvGen documentation (SuperCollider help files and the
docstrings' parameter descriptions), never importing sc3:

* the EnvGen array: [initial level, number of segments, release node | -99,
  loop node | -99] followed, per segment, by [target level, duration, shape
  number, curvature]; `times` and `curves` are wrapped to the number of
  segments; named shapes map to the server's shape numbers;
* the breakpoints of the standard constructors;
* the *constraints* the property puts on client-side evaluation (no
  interpolation formula is specified here on purpose: inside a segment the
  property only demands betweenness).

Everything is plain data in, plain data out."""

# Server shape numbers (EnvGen help / Env.shapeNames).
SHAPE_NUMBERS = {
    'step': 0,
    'lin': 1, 'linear': 1,
    'exp': 2, 'exponential': 2,
    'sin': 3, 'sine': 3,
    'wel': 4, 'welch': 4,
    # 5 = numeric curvature
    'sqr': 6, 'squared': 6,
    'cub': 7, 'cubed': 7,
    'hold': 8,
}
CURVATURE_SHAPE = 5
ABSENT = -99

DOCUMENTED_NAMES = ['lin', 'linear', 'step', 'hold', 'exp', 'exponential',
                    'sin', 'sine', 'wel', 'welch', 'sqr', 'squared', 'cub',
                    'cubed']


def as_list(x):
    return list(x) if isinstance(x, (list, tuple)) else [x]


def wrap(lst, n):
    """`lst` extended cyclically to n items."""
    return [lst[i % len(lst)] for i in range(n)]


def shape_and_curvature(curve):
    """One curve item -> (shape number, curvature slot)."""
    if isinstance(curve, str):
        return SHAPE_NUMBERS[curve], 0
    return CURVATURE_SHAPE, curve


def segments(levels, times, curves):
    """Per-segment (start level, target level, duration, curve item)."""
    n = len(levels) - 1
    ts = wrap(as_list(times), n)
    cs = wrap(as_list(curves), n)
    return [(levels[i], levels[i + 1], ts[i], cs[i]) for i in range(n)]


def encode(levels, times, curves='lin', release_node=None, loop_node=None):
    """The array EnvGen receives for a single-channel envelope."""
    segs = segments(levels, times, curves)
    out = [levels[0], len(segs),
           ABSENT if release_node is None else release_node,
           ABSENT if loop_node is None else loop_node]
    for _, target, dur, curve in segs:
        shape, curvature = shape_and_curvature(curve)
        out += [target, dur, shape, curvature]
    return out


def encode_interpolation(levels, times, curves='lin', offset=0):
    """The array IEnvGen receives (IEnvGen help / asArrayForInterpolation):
    [offset, initial level, number of segments, total duration] followed, per
    segment, by [duration, shape number, curvature, target level]."""
    segs = segments(levels, times, curves)
    total = 0
    for _, _, dur, _ in segs:
        total = total + dur
    out = [offset, levels[0], len(segs), total]
    for _, target, dur, curve in segs:
        shape, curvature = shape_and_curvature(curve)
        out += [dur, shape, curvature, target]
    return out


def interpolation_index(i):
    """Index in the IEnvGen array of EnvGen-array slot i (None for the
    release / loop node slots, which IEnvGen does not have)."""
    if i == 0:
        return 1
    if i == 1:
        return 2
    if i in (2, 3):
        return None
    k, s = divmod(i - 4, 4)
    return 4 + 4 * k + {0: 3, 1: 0, 2: 1, 3: 2}[s]


# ---------------------------------------------------------------------------
# Standard constructors: documented defaults and breakpoints.

CTOR_PARAMS = {
    # name: [(parameter, documented default)...] in documented order
    'triangle': [('dur', 1.0), ('level', 1.0)],
    'sine': [('dur', 1.0), ('level', 1.0)],
    'perc': [('attack_time', 0.01), ('release_time', 1.0), ('level', 1.0),
             ('curve', -4.0)],
    'linen': [('attack_time', 0.01), ('sustain_time', 1.0),
              ('release_time', 1.0), ('level', 1.0), ('curve', 'lin')],
    'cutoff': [('release_time', 0.1), ('level', 1.0), ('curve', 'lin')],
    'dadsr': [('delay_time', 0.1), ('attack_time', 0.01),
              ('decay_time', 0.3), ('sustain_level', 0.5),
              ('release_time', 1.0), ('peak_level', 1.0), ('curve', -4.0),
              ('bias', 0.0)],
    'adsr': [('attack_time', 0.01), ('decay_time', 0.3),
             ('sustain_level', 0.5), ('release_time', 1.0),
             ('peak_level', 1.0), ('curve', -4.0), ('bias', 0.0)],
    'asr': [('attack_time', 0.01), ('sustain_level', 1.0),
            ('release_time', 1.0), ('curve', -4.0)],
}


def ctor_expected(name, args):
    """Documented meaning of `Env.<name>(**args)` (missing args = defaults).

    Returns dict(levels, times, curves, rel, loop, offset, dontcare) where
    `dontcare` is a set of array indices / field names the documentation does
    not decide."""
    dontcare = set()
    present = set()
    offset = 0
    loop = None
    if name in CTOR_PARAMS:
        a = dict(CTOR_PARAMS[name])
        a.update(args)
    else:
        a = dict(args)
    if name == 'triangle':
        levels = [0, a['level'], 0]
        times = [a['dur'] * 0.5, a['dur'] * 0.5]
        curves, rel = 'lin', None
    elif name == 'sine':
        levels = [0, a['level'], 0]
        times = [a['dur'] * 0.5, a['dur'] * 0.5]
        curves, rel = 'sine', None
    elif name == 'perc':
        levels = [0, a['level'], 0]
        times = [a['attack_time'], a['release_time']]
        curves, rel = a['curve'], None
    elif name == 'linen':
        levels = [0, a['level'], a['level'], 0]
        times = [a['attack_time'], a['sustain_time'], a['release_time']]
        curves, rel = a['curve'], None
    elif name == 'cutoff':
        levels = [a['level'], 0]
        times = [a['release_time']]
        curves, rel = a['curve'], 0
        if curves in ('exp', 'exponential'):
            # an exponential segment cannot reach 0; the end level used
            # instead is not part of the sc3 documentation
            dontcare.add(4)
    elif name == 'adsr':
        p, b = a['peak_level'], a['bias']
        levels = [0 + b, p + b, p * a['sustain_level'] + b, 0 + b]
        times = [a['attack_time'], a['decay_time'], a['release_time']]
        curves, rel = a['curve'], 2
    elif name == 'dadsr':
        p, b = a['peak_level'], a['bias']
        levels = [0 + b, 0 + b, p + b, p * a['sustain_level'] + b, 0 + b]
        times = [a['delay_time'], a['attack_time'], a['decay_time'],
                 a['release_time']]
        curves, rel = a['curve'], 3
    elif name == 'asr':
        levels = [0, a['sustain_level'], 0]
        times = [a['attack_time'], a['release_time']]
        curves, rel = a['curve'], 1
    elif name == 'step':
        lv = a.get('levels')
        tm = a.get('times')
        lv = [0, 1] if lv is None else lv
        tm = [1, 1] if tm is None else tm
        levels = [lv[0]] + list(lv)
        times = list(tm)
        curves = 'step'
        rel = a.get('release_level')
        loop = a.get('loop_level')
        offset = a.get('offset', 0)
        # how the *level* indices map to node numbers is not decided by the
        # property statement: only "absent -> -99" is.
        # ...but a node that is given is not encoded as absent (-99)
        if rel is not None:
            dontcare.add(2)
            present.add(2)
        if loop is not None:
            dontcare.add(3)
            present.add(3)
    elif name == 'pairs':
        # "sorted regarding their point in time": a stable sort on the time
        # alone - points sharing a time (a vertical jump) keep input order
        pts = sorted(a['pairs'], key=lambda p: p[0])
        cv = a.get('curves')
        if cv is None:
            per_point = ['lin'] * len(pts)
        elif isinstance(cv, (str, int, float)):
            per_point = [cv] * len(pts)
        else:
            order = sorted(range(len(a['pairs'])),
                           key=lambda i: a['pairs'][i][0])
            per_point = [cv[i] for i in order]
        levels = [p[1] for p in pts]
        times = [pts[i + 1][0] - pts[i][0] for i in range(len(pts) - 1)]
        curves = per_point[:-1]       # the last point's curve is ignored
        rel = None
        offset = pts[0][0]
    elif name == 'xyc':
        pts = sorted(a['xyc'], key=lambda p: p[0])   # stable, time only
        levels = [p[1] for p in pts]
        times = [pts[i + 1][0] - pts[i][0] for i in range(len(pts) - 1)]
        curves = [p[2] for p in pts][:-1]
        rel = None
        offset = pts[0][0]
    else:
        raise ValueError(name)
    return {'levels': levels, 'times': times, 'curves': curves, 'rel': rel,
            'loop': loop, 'offset': offset, 'dontcare': dontcare,
            'present': present}


# ---------------------------------------------------------------------------
# Client-side evaluation: what the property demands at a time t.

def on_domain(start, target, curve):
    """Is the segment inside the documented domain of its shape?"""
    if isinstance(curve, str):
        s = SHAPE_NUMBERS[curve]
        if s == 2:
            return start * target > 0      # same sign, non-zero
        if s in (6, 7):
            return start >= 0 and target >= 0
    return True


def _tol(curve):
    if isinstance(curve, str) and SHAPE_NUMBERS[curve] in (6, 7):
        return 1e-6        # sqrt / pow(x, 0.3333333) round trips
    return 1e-9


class Plan:
    """Breakpoints of one envelope, computed once; `demand(t)` is the
    constraint the property puts on the value at time t:

      ('any',)                      the statement does not decide
      ('oneof', [values], tol)      at a breakpoint / after the end
      ('between', lo, hi, tol)      strictly inside a segment
    """

    def __init__(self, levels, times, curves, offset=0):
        self.levels = list(levels)
        self.segs = segments(levels, times, curves)
        self.offset = offset
        self.n = len(self.segs)
        bp = [0]
        for _, _, dur, _ in self.segs:
            bp.append(bp[-1] + dur)       # left-to-right sum
        self.bp = bp
        self.dom = [on_domain(a, b, c) for a, b, _, c in self.segs]
        self.tol = [_tol(c) for _, _, _, c in self.segs]
        self.isstep = [isinstance(c, str) and SHAPE_NUMBERS[c] == 0
                       for _, _, _, c in self.segs]

    def where(self, t):
        """('before'|'bp'|'inside'|'after', index of the segment starting at
        / containing t; n for the last breakpoint and after)."""
        t = t - self.offset
        bp, n = self.bp, self.n
        if t < 0:
            return ('before', 0)
        if t > bp[-1]:
            return ('after', n)
        hit = None
        for i in range(n + 1):
            if bp[i] == t:
                hit = i
        if hit is not None:
            return ('bp', hit)
        for i in range(n):
            if bp[i] < t < bp[i + 1]:
                return ('inside', i)
        raise AssertionError((self.levels, self.bp, t))

    def demand(self, t):
        t = t - self.offset
        bp, n, levels = self.bp, self.n, self.levels
        if t < 0:
            return ('any',)
        if t > bp[-1]:
            return ('oneof', [levels[-1]], 1e-9)
        allowed = None
        tol = 1e-9
        for i in range(n + 1):
            if bp[i] != t:
                continue
            if allowed is None:
                allowed = []
            allowed.append(levels[i])
            if i < n:
                if not self.dom[i]:
                    return ('any',)
                tol = max(tol, self.tol[i])
                if self.isstep[i]:
                    # a step segment is at its target from its first instant
                    allowed.append(levels[i + 1])
        if allowed is not None:
            return ('oneof', allowed, tol)
        for i in range(n):
            if bp[i] < t < bp[i + 1]:
                if not self.dom[i]:
                    return ('any',)
                a, b = levels[i], levels[i + 1]
                return ('between', min(a, b), max(a, b), self.tol[i])
        raise AssertionError((self.levels, self.bp, t))


def demand(levels, times, curves, t, offset=0):
    return Plan(levels, times, curves, offset).demand(t)


def where(levels, times, curves, t, offset=0):
    return Plan(levels, times, curves, offset).where(t)


def accepts(d, value):
    """Does an observed value satisfy demand d?  `value` is the observation:
    a real number, or anything else (exception marker, complex, None)."""
    if d[0] == 'any':
        return True
    if isinstance(value, bool) or not isinstance(value, (int, float)):
        return False
    if value != value:          # NaN
        return False
    if d[0] == 'oneof':
        return any(abs(value - x) <= d[2] for x in d[1])
    if d[0] == 'between':
        return d[1] - d[3] <= value <= d[2] + d[3]
    raise AssertionError(d)


def total_duration(levels, times):
    n = len(levels) - 1
    return sum(wrap(as_list(times), n))


def time_grid(levels, times, offset=0, step=0.125):
    """Multiples of `step` over [offset - 0.5, offset + total + 1]."""
    total = total_duration(levels, times)
    k0 = int(round((offset - 0.5) / step))
    k1 = int(round((offset + total + 1) / step))
    return [k * step for k in range(k0, k1 + 1)]


def selftest():
    # Env help: Env([0, 1, 0], [1, 1], 'lin').asArray
    assert encode([0, 1, 0], [1, 1], 'lin') == \
        [0, 2, -99, -99, 1, 1, 1, 0, 0, 1, 1, 0]
    # Env.adsr.asArray (SuperCollider help)
    e = ctor_expected('adsr', {})
    assert encode(e['levels'], e['times'], e['curves'], e['rel'], e['loop']) \
        == [0, 3, 2, -99, 1, 0.01, 5, -4, 0.5, 0.3, 5, -4, 0, 1, 5, -4]
    # Env.perc.asArray
    e = ctor_expected('perc', {})
    assert encode(e['levels'], e['times'], e['curves'], e['rel'], e['loop']) \
        == [0, 2, -99, -99, 1, 0.01, 5, -4, 0, 1, 5, -4]
    # Env.asr
    e = ctor_expected('asr', {})
    assert encode(e['levels'], e['times'], e['curves'], e['rel'], e['loop']) \
        == [0, 2, 1, -99, 1, 0.01, 5, -4, 0, 1, 5, -4]
    # wrapping of times and curves; mixed names and numbers
    assert encode([0, 1, 0, 2], [0.5], ['sin', -4], 1, 0) == \
        [0, 3, 1, 0, 1, 0.5, 3, 0, 0, 0.5, 5, -4, 2, 0.5, 3, 0]
    assert encode([0, 1], 2, 'sqr') == [0, 1, -99, -99, 1, 2, 6, 0]
    assert encode([0, 1], 2, 'hold') == [0, 1, -99, -99, 1, 2, 8, 0]
    # Env.step([0, 1], [1, 1]) -> levels [0, 0, 1]
    e = ctor_expected('step', {})
    assert e['levels'] == [0, 0, 1] and e['times'] == [1, 1]
    # Env.pairs sorts by time; Env.xyc ignores the last curve
    e = ctor_expected('pairs', {'pairs': [[2, 1], [0, 0], [0.5, 2]],
                                'curves': 'exp'})
    assert e['levels'] == [0, 2, 1] and e['times'] == [0.5, 1.5]
    assert e['curves'] == ['exp', 'exp'] and e['offset'] == 0
    e = ctor_expected('xyc', {'xyc': [[1, 1, -4], [0.5, 0, 'sin'],
                                      [3, 0, 'hold']]})
    assert e['levels'] == [0, 1, 0] and e['times'] == [0.5, 2]
    assert e['curves'] == ['sin', -4] and e['offset'] == 0.5
    # IEnvGen layout
    assert encode_interpolation([0, 1, 0.5], [1, 2], ['sin', -4], 0.5) == \
        [0.5, 0, 2, 3, 1, 3, 0, 1, 2, 5, -4, 0.5]
    assert [interpolation_index(i) for i in range(12)] == \
        [1, 2, None, None, 7, 4, 5, 6, 11, 8, 9, 10]
    # equal times keep their input order (vertical jump 1 -> 0.25 at t = 1)
    e = ctor_expected('pairs', {'pairs': [[0, 0], [1, 1], [1, 0.25], [2, 0]]})
    assert e['levels'] == [0, 1, 0.25, 0] and e['times'] == [1, 0, 1]
    e = ctor_expected('xyc', {'xyc': [[1, 1, 'sin'], [0, 0, 'lin'],
                                      [1, 0.25, -4], [2, 0, 'lin']]})
    assert e['levels'] == [0, 1, 0.25, 0] and e['curves'] == ['lin', 'sin', -4]
    # evaluation demands
    L, T = [0, 1, 0], [1, 2]
    assert demand(L, T, 'lin', -0.25) == ('any',)
    assert demand(L, T, 'lin', 0) == ('oneof', [0], 1e-9)
    assert demand(L, T, 'lin', 1) == ('oneof', [1], 1e-9)
    assert demand(L, T, 'lin', 0.5) == ('between', 0, 1, 1e-9)
    assert demand(L, T, 'lin', 3) == ('oneof', [0], 1e-9)
    assert demand(L, T, 'lin', 3.5) == ('oneof', [0], 1e-9)
    assert demand(L, T, 'step', 0) == ('oneof', [0, 1], 1e-9)
    assert demand(L, T, 'exp', 0.5) == ('any',)
    assert demand([1, 2], [1], 'exp', 0.5) == ('between', 1, 2, 1e-9)
    assert demand([-1, 2], [1], 'cub', 0.5) == ('any',)
    assert demand([0, 1, 2], [0, 1], 'lin', 0) == ('oneof', [0, 1], 1e-9)
    assert accepts(('between', 0, 1, 1e-9), 0.5)
    assert not accepts(('between', 0, 1, 1e-9), 1.5)
    assert not accepts(('oneof', [1], 1e-9), float('nan'))
    assert not accepts(('oneof', [1], 1e-9), 'ZeroDivisionError')
    assert time_grid([0, 1], [1])[0] == -0.5
    assert time_grid([0, 1], [1])[-1] == 2.0
    assert len(DOCUMENTED_NAMES) == 14
    assert all(n in SHAPE_NUMBERS for n in DOCUMENTED_NAMES)


if __name__ == '__main__':
    selftest()
    print('ok')
