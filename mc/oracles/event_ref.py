"""Reference semantics for events and event players (property C14).

Written from the SuperCollider documentation of the default parent event
(Event help "Pitch / Amplitude / Duration" key chains, Pattern Guide 07 "Value
conversions", Scale and Tuning help, Pbind / Pmono / Ppar / Pchain / Pfindur /
Rest help), from the server command reference (add action numbers) and from
the docstrings / comments of the Python library where it deliberately differs
(`Pdur` == Pfindur, `Pdelta(t, p)` == a rest of t followed by p; harmonic and
detune are the modifiers of `freq`; velocity maps linearly to amp: 12 == 0.1).
Never imports sc3.

Three parts:

1. key chains: `pitch(given)`, `amp(given)`, `dur(given)`.  `given` is the
   dict of the keys that are *explicitly* present in the event (plain data;
   a scale is a name in SCALES, a rest is {"Rest": value-or-null}).  Every
   result is a *candidate list*: the observation is right if it is close to
   any candidate; `ANY` (None) means that nothing is demanded.  Candidates
   are how the don't-cares of the statement are represented:

   * `ctranspose` on the degree path: the SuperCollider chain adds it, this
     library documents that it does not (event.py `_freq_from_degree`): both.
   * `harmonic` with an explicit `freq`: SuperCollider does not apply it (an
     explicit ~freq replaces the function that multiplies), the library
     documents harmonic and detune as "freq's own modifiers": both.
   * the plain *lookup* `event('freq')`: with or without harmonic (in
     SuperCollider ~freq includes harmonic, in the library only the sent
     value does).  The value that is *sent* must include harmonic and detune.
   * no main pitch key given at all, only modifiers (octave=4): SuperCollider
     runs the chain from the default degree 0, the library returns the
     default midinote/freq: both.
   * lookups of a key *below* the highest explicit key with nothing explicit
     under it (midinote when only freq is given): reverse conversion or
     default - nothing is demanded.
   * db and velocity both given without amp: either wins.
   * units of note/gtranspose/root when the tuning does not have 12 steps
     per octave ratio: SuperCollider counts semitones (stepsPerOctave =
     12*log2(ratio)), the library's Scale counts tuning steps
     (spo = log2(ratio)*len(tuning)): both conventions are evaluated.

2. the note message: `note_spec(given, ctrls)` - which control/value pairs a
   `/s_new` for an instrument with controls `ctrls` must, may and must not
   carry, and the sustain of the gate-off.

3. players: `denote(pattern, horizon)` - the timeline (relative start time,
   explicit keys, rest?, mono voice) of an event pattern expression

       ["Pbind", {key: vp}]            ["Pmono", instrument, {key: vp}]
       ["Pchain", [pbind, ...]]        ["Ppar", [p, ...]]
       ["Pdur", d, p]                  ["Pdelta", t, p]
       ["Pseq", [p, ...]]              (event patterns in sequence)
       ["Pmono", instrument, {..}, {"articulate": true}]   (PmonoArtic)
       ["Pdur", d, p, {"quant": q}]                        (Psync)
       ["Pchain", [p, constant pbind]] (the pbind's keys are the input event
                                        of p) / ["Pchain", [constant pbind,
                                        p]] (its keys override p's events)
       a Pbind key "a+b" is the key set (a, b) fed by sequences

   with value patterns vp: number | string | {"Rest": x} |
   ["Pseq", [items], repeats|"inf"] | ["Pseries", start, step] |
   ["Pconst", vp, sum].  A delta of 0 is allowed (simultaneous events).

   Not decided (the reference refuses, the check does not generate): a
   Pdelta or a quant rest of Pdur below an input event with stretch != 1 (is
   the rest stretched?), rests inside Pconst, partial sums within the
   tolerance of Pconst/Pdur, Pchain over Pmono voices.
"""

import math

ANY = None
RTOL = 1e-9

DEFAULTS = {
    'mtranspose': 0, 'gtranspose': 0.0, 'ctranspose': 0.0, 'octave': 5.0,
    'root': 0.0, 'degree': 0, 'harmonic': 1.0, 'detune': 0.0,
    'scale': 'major',
    'dur': 1.0, 'stretch': 1.0, 'legato': 0.8,
    'amp': 0.1, 'pan': 0.0, 'out': 0,
}

# add actions, server command reference (/s_new)
ADD_ACTIONS = {'addToHead': 0, 'addToTail': 1, 'addBefore': 2, 'addAfter': 3,
               'addReplace': 4}
# the library's Node documentation also accepts these spellings and the numbers
ADD_ACTION_SPELLINGS = dict(ADD_ACTIONS)
ADD_ACTION_SPELLINGS.update({'head': 0, 'tail': 1, 'before': 2, 'after': 3,
                             'replace': 4, 'h': 0, 't': 1, 'b': 2, 'a': 3,
                             'r': 4, 0: 0, 1: 1, 2: 2, 3: 3, 4: 4})


def add_action_number(a):
    if isinstance(a, bool):
        raise ValueError(a)
    return ADD_ACTION_SPELLINGS[a]

_JUST_RATIOS = [1, 16 / 15, 9 / 8, 6 / 5, 5 / 4, 4 / 3, 45 / 32, 3 / 2, 8 / 5,
                5 / 3, 9 / 5, 15 / 8]          # Tuning.just (Tuning help)

# name -> degrees (indices into the tuning), tuning (semitones, None = 12-tone
# equal temperament), octave ratio
SCALES = {
    'major': {'degrees': [0, 2, 4, 5, 7, 9, 11], 'tuning': None,
              'ratio': 2.0},
    'major_x': {'degrees': [0, 2, 4, 5, 7, 9, 11], 'tuning': None,
                'ratio': 2.0},            # same scale, given explicitly
    'minorpent': {'degrees': [0, 3, 5, 7, 10], 'tuning': None, 'ratio': 2.0},
    'chromatic': {'degrees': list(range(12)), 'tuning': None, 'ratio': 2.0},
    # the same kinds of scale built through other constructors (the check
    # maps the names: Scale.chromatic(Tuning.et(12)), Scale(tuple, Tuning.et(12)),
    # Scale(range(0, 12, 2)))
    'chromatic_cm': {'degrees': list(range(12)), 'tuning': None,
                     'ratio': 2.0},
    'major_et12': {'degrees': [0, 2, 4, 5, 7, 9, 11], 'tuning': None,
                   'ratio': 2.0},
    'whole_rng': {'degrees': [0, 2, 4, 6, 8, 10], 'tuning': None,
                  'ratio': 2.0},
    'major_just': {'degrees': [0, 2, 4, 5, 7, 9, 11],
                   'tuning': [12 * math.log2(r) for r in _JUST_RATIOS],
                   'ratio': 2.0},
    'major_et24': {'degrees': [0, 4, 8, 10, 14, 18, 22],
                   'tuning': [i * 0.5 for i in range(24)], 'ratio': 2.0},
    'bp': {'degrees': list(range(13)),
           'tuning': [i * 12 * math.log2(3.0) / 13 for i in range(13)],
           'ratio': 3.0},
}


def scale_tuning(scale):
    t = scale['tuning']
    return [float(i) for i in range(12)] if t is None else t


def is_et12(scale):
    return scale['tuning'] is None and scale['ratio'] == 2.0


# ---------------------------------------------------------------------------
# small numeric helpers
# ---------------------------------------------------------------------------

def midicps(m):
    return 440.0 * 2.0 ** ((m - 69.0) / 12.0)


def cpsmidi(f):
    return 69.0 + 12.0 * math.log2(f / 440.0)


def dbamp(db):
    return 10.0 ** (db / 20.0)


def is_rest_marker(v):
    return isinstance(v, dict) and 'Rest' in v


def num(v):
    """Numeric value of a possibly Rest-wrapped number (Rest() == Rest(1))."""
    if is_rest_marker(v):
        return 1.0 if v['Rest'] is None else v['Rest']
    return v


def close(a, b, rtol=RTOL):
    if isinstance(a, bool) or isinstance(b, bool):
        return a is b
    if not isinstance(a, (int, float)) or not isinstance(b, (int, float)):
        return a == b
    if a == b:
        return True
    return abs(a - b) <= rtol * max(abs(a), abs(b), 1e-300)


def among(x, cands, rtol=RTOL):
    """x is acceptable for the candidate list (ANY accepts everything)."""
    if cands is ANY:
        return True
    return any(close(x, c, rtol) for c in cands)


def _uniq(xs):
    out = []
    for x in xs:
        if not any(close(x, y, 1e-13) for y in out):
            out.append(x)
    return out


# ---------------------------------------------------------------------------
# 1. key chains
# ---------------------------------------------------------------------------

CONVS = ('semitones', 'steps')


def _spo(scale, conv):
    r = math.log2(scale['ratio'])
    if conv == 'semitones':              # Tuning.stepsPerOctave (SC)
        return 12.0 * r
    return r * len(scale_tuning(scale))  # library docstring of Scale/Tuning


def degree_to_key(degree, scale, conv='semitones'):
    """SimpleNumber.degreeToKey / Scale.performDegreeToKey for integer
    degrees: stepsPerOctave * (degree div size) + scale.wrapAt(degree), where
    a Scale's wrapAt is the *tuning value* of the degree."""
    degs = scale['degrees']
    tun = scale_tuning(scale)
    n = len(degs)
    d = int(degree)
    if d != degree:
        raise ValueError('accidentals are outside the reference')
    spo = _spo(scale, conv)
    unit = spo / (12.0 * math.log2(scale['ratio']))   # semitone -> key unit
    return spo * (d // n) + tun[degs[d % n]] * unit


def pitch(given):
    """Candidates for the lookups note / midinote / freq and for the sent
    (detuned) frequency."""
    def g(k):
        return num(given.get(k, DEFAULTS[k]))

    scale = SCALES[given.get('scale', 'major')]
    F, M, N, D = ('freq' in given, 'midinote' in given, 'note' in given,
                  'degree' in given)
    ratio12 = 12.0 * math.log2(scale['ratio'])
    ct, h, det = g('ctranspose'), g('harmonic'), g('detune')

    def note_from_degree(conv):
        return degree_to_key(g('degree') + g('mtranspose'), scale, conv)

    def midi_from_note(note, conv):
        return ((note + g('gtranspose') + g('root')) / _spo(scale, conv)
                + g('octave') - 5.0) * ratio12 + 60.0

    chain_midis = _uniq([midi_from_note(note_from_degree(c), c)
                         for c in CONVS])

    # --- note
    if N:
        note = [num(given['note'])]
    elif D or not (F or M):
        note = _uniq([note_from_degree(c) for c in CONVS])
    else:
        note = ANY

    # --- midinote
    if M:
        midi = [num(given['midinote'])]
    elif N:
        midi = _uniq([midi_from_note(num(given['note']), c) for c in CONVS])
    elif D:
        midi = chain_midis
    elif F:
        midi = ANY
    else:
        midi = _uniq([60.0] + chain_midis)

    # --- freq before harmonic/detune
    if F:
        base = [num(given['freq'])]
    elif M or N:
        base = [midicps(m + ct) for m in midi]
    elif D:
        base = [midicps(m + ct) for m in midi] + [midicps(m) for m in midi]
    else:
        base = [midicps(60.0)] + [midicps(m + ct) for m in chain_midis] + \
            [midicps(m) for m in chain_midis]
    base = _uniq(base)
    if F:
        lookup = base
        sent = _uniq([base[0] * h + det, base[0] + det])
    else:
        lookup = _uniq(base + [b * h for b in base])
        sent = _uniq([b * h + det for b in base])
    return {'note': note, 'midinote': midi, 'freq': lookup, 'freq_sent': sent}


def amp(given):
    A, B, V = 'amp' in given, 'db' in given, 'velocity' in given
    if A:
        return {'amp': [num(given['amp'])]}
    c = []
    if B:
        c.append(dbamp(num(given['db'])))
    if V:
        c.append(num(given['velocity']) / 127.0)
    if not c:
        c = [DEFAULTS['amp']]
    return {'amp': c}


def dur(given):
    def g(k):
        return num(given.get(k, DEFAULTS[k]))
    delta = num(given['delta']) if 'delta' in given \
        else g('dur') * g('stretch')
    sustain = num(given['sustain']) if 'sustain' in given \
        else g('dur') * g('legato') * g('stretch')
    return {'delta': delta, 'sustain': sustain}


def is_rest(given):
    return given.get('type') == 'rest' or \
        any(is_rest_marker(v) for v in given.values())


# ---------------------------------------------------------------------------
# 2. the note message
# ---------------------------------------------------------------------------

PITCH_MAIN = ('freq', 'midinote', 'note', 'degree')


def note_spec(given, ctrls):
    """What a synth-creation message for this event may carry.

    required: control -> candidates  (the event defines the control)
    optional: control -> candidates  (not explicitly in the event but a key
              of the default event - freq, amp, pan, out: the statement says
              "each control ... that the event defines" and does not decide
              whether defaults count, so presence is a don't-care while a
              present value must be the resolved one)
    Everything else (a control the event does not define, `gate`, a name that
    is not a control of the instrument) must not appear."""
    p = pitch(given)
    required, optional = {}, {}
    for c in ctrls:
        if c == 'gate':
            continue
        if c == 'freq':
            if any(k in given for k in PITCH_MAIN):
                required[c] = p['freq_sent']
            else:
                optional[c] = p['freq_sent']
        elif c == 'amp':
            if 'amp' in given:
                required[c] = amp(given)['amp']
            else:
                optional[c] = amp(given)['amp']
        elif c in given:
            required[c] = [num(given[c])]
        elif c in ('pan', 'out'):
            optional[c] = [DEFAULTS[c]]
    return {'required': required, 'optional': optional,
            'has_gate': 'gate' in ctrls, 'sustain': dur(given)['sustain']}


# ---------------------------------------------------------------------------
# 3. players
# ---------------------------------------------------------------------------

INF = float('inf')
_CAP = 512


def vp_iter(vp):
    """Values of a value pattern used as a Pbind value (streaming protocol:
    a plain value is the constant endless stream)."""
    if isinstance(vp, list):
        h = vp[0]
        if h == 'Pseq':
            items, rep = vp[1], vp[2]
            k = 0
            while rep == 'inf' or k < rep:
                for it in items:
                    yield it
                k += 1
                if not items:
                    return
        elif h == 'Pseries':
            x, n = vp[1], 0
            while True:
                yield vp[1] + n * vp[2]
                n += 1
        elif h == 'Pconst':
            # Pconst help: values of the source until their sum reaches
            # `sum`; the value that reaches it is cut so that the total is
            # exactly `sum`; a source that ends early is followed by the
            # difference.  (A partial sum inside the tolerance band below
            # `sum` is outside the reference.)
            total, acc = vp[2], 0.0
            for v in vp_iter(vp[1]):
                if is_rest_marker(v):
                    raise ValueError('rests inside Pconst are outside the '
                                     'reference')
                nxt = acc + v
                if nxt >= total:
                    yield total - acc
                    return
                if nxt > total - 0.0011:
                    raise ValueError('partial sum within the tolerance of '
                                     'Pconst: outside the reference')
                acc = nxt
                yield v
            yield total - acc
        else:
            raise ValueError(vp)
    else:
        while True:
            yield vp


def _assign(ev, key, value):
    """`a+b` is the key set (a, b) of a Pbind: the value is a sequence that
    is distributed over the keys."""
    if '+' in key:
        for name, v in zip(key.split('+'), value):
            ev[name] = v
    else:
        ev[key] = value


def _bind_events(dicts, horizon, mono=None, proto=None, ids=None):
    """`dicts`: Pbind key dicts, applied first to last (later override);
    `proto`: the keys of the input event (the pattern's own keys override);
    `mono`: (voice id | None, instrument, articulate)."""
    streams = [[(k, vp_iter(v)) for k, v in d.items()] for d in dicts]
    out, t, k = [], 0.0, 0
    voice, vk = None, 0
    if mono is not None and not mono[2]:
        voice = mono[0]
        vk = -1
    while t < horizon:
        ev = dict(proto or {})
        try:
            for st in streams:
                for key, it in st:
                    _assign(ev, key, next(it))
        except StopIteration:
            break
        e = {'t': t, 'ev': ev, 'rest': is_rest(ev), 'mono': None}
        dd = dur(ev)
        if mono is not None:
            ev['instrument'] = mono[1]
            if not mono[2]:
                vk += 1
                e['mono'] = [voice, vk]
            elif voice is None:
                # PmonoArtic help: a new synth starts with an event that is
                # held until the next one (sustain >= delta); an event that
                # ends before the next one is an ordinary note
                if dd['sustain'] >= dd['delta'] and not e['rest']:
                    ids[0] += 1
                    voice, vk = ids[0], 0
                    e['mono'] = [voice, vk]
            else:
                vk += 1
                e['mono'] = [voice, vk]
                if dd['sustain'] < dd['delta'] or e['rest']:
                    voice = None          # released; the next event starts
        out.append(e)
        d = dd['delta']
        if not d >= 0:
            raise ValueError('negative delta is outside the reference')
        t += d
        k += 1
        if k > _CAP:
            raise ValueError('endless pattern without a horizon')
    return out, t


def _shift(evs, dt):
    return [dict(e, t=e['t'] + dt) for e in evs]


TIME_KEYS = ('dur', 'stretch', 'delta', 'sustain', 'type')


def _const_bind(p):
    return p[0] == 'Pbind' and not any(isinstance(v, list)
                                       for v in p[1].values())


def _opts(p, i):
    return p[i] if len(p) > i and isinstance(p[i], dict) else {}


def _stretched(proto):
    return proto is not None and num(proto.get('stretch', 1)) != 1


def denote(p, horizon=INF, _ids=None, proto=None):
    """-> (events with relative start < horizon in time order, total
    duration).  An event is {'t', 'ev' (explicit keys), 'rest', 'mono':
    None | [voice id, index]}.  `proto`: keys of the input event every leaf
    pattern starts from (Pattern.play(proto=...), or the right operand of a
    Pchain)."""
    ids = _ids if _ids is not None else [0]
    h = p[0]
    if h == 'Pbind':
        return _bind_events([p[1]], horizon, proto=proto)
    if h == 'Pchain':
        kids = p[1]
        if all(c[0] == 'Pbind' for c in kids):
            return _bind_events([c[1] for c in reversed(kids)], horizon,
                                proto=proto)
        if len(kids) == 2 and _const_bind(kids[1]):
            # the events of the right pattern are the input events of the
            # left one
            np_ = dict(proto or {})
            np_.update(kids[1][1])
            return denote(kids[0], horizon, ids, np_)
        if len(kids) == 2 and _const_bind(kids[0]) and \
                kids[1][0] in ('Ppar', 'Pdur', 'Pdelta', 'Pseq') and \
                not any(k in TIME_KEYS for k in kids[0][1]):
            # the left pattern overrides keys of the events of the right one
            evs, tot = denote(kids[1], horizon, ids, proto)
            out = []
            for e in evs:
                if e['mono'] is not None:
                    raise ValueError('Pchain over Pmono voices is outside '
                                     'the reference')
                ev = dict(e['ev'])
                ev.update(kids[0][1])
                out.append(dict(e, ev=ev, rest=is_rest(ev)))
            return out, tot
        raise ValueError('Pchain reference: Pbind children, or one constant '
                         'Pbind next to an event pattern')
    if h == 'Pmono':
        artic = bool(_opts(p, 3).get('articulate'))
        if not artic:
            ids[0] += 1
        return _bind_events([p[2]], horizon,
                            mono=(None if artic else ids[0], p[1], artic),
                            proto=proto, ids=ids)
    if h == 'Ppar':
        allev, total = [], 0.0
        for i, c in enumerate(p[1]):
            evs, tot = denote(c, horizon, ids, proto)
            allev += [(e['t'], i, j, e) for j, e in enumerate(evs)]
            total = max(total, tot)
        allev.sort(key=lambda x: x[:3])
        return [x[3] for x in allev], total
    if h == 'Pdur':
        quant = _opts(p, 3).get('quant')
        evs, tot = denote(p[2], min(horizon, p[1]), ids, proto)
        if quant is not None and tot < p[1]:
            # Psync help: a pattern that ends before the limit is followed
            # by a rest up to the next multiple of quant
            if tot > p[1] - 0.0011:
                raise ValueError('end within the tolerance of Pdur')
            padded = math.ceil(tot / quant) * quant
            if padded > p[1] or (_stretched(proto) and padded != tot):
                raise ValueError('outside the reference')
            return evs, padded
        return evs, min(p[1], tot)
    if h == 'Pdelta':
        t = num(p[1])
        if not t > 0:
            return denote(p[2], horizon, ids, proto)
        if _stretched(proto):
            raise ValueError('Pdelta below a stretching input event: whether '
                             'the time is stretched is not decided')
        evs, tot = denote(p[2], horizon - t, ids, proto)
        return _shift(evs, t), t + tot
    if h == 'Pseq':
        out, acc = [], 0.0
        for c in p[1]:
            if acc >= horizon:
                break
            evs, tot = denote(c, horizon - acc, ids, proto)
            out += _shift(evs, acc)
            acc += tot
        return out, acc
    raise ValueError(p)


# ---------------------------------------------------------------------------

def selftest():
    # Pattern Guide 07: degree 0 -> note 0 -> midinote 60 -> 261.6256 Hz
    p = pitch({})
    assert among(261.6255653005986, p['freq_sent']) and among(60, p['midinote'])
    # (degree: 2) is an E: midinote 64
    assert pitch({'degree': 2})['midinote'] == [64.0]
    # degree 7 of a 7-note scale is the octave, -1 the leading note below
    assert pitch({'degree': 7})['midinote'] == [72.0]
    assert pitch({'degree': -1})['midinote'] == [59.0]
    # mtranspose moves inside the scale, gtranspose/root chromatically,
    # octave by 12
    assert pitch({'degree': 1, 'mtranspose': 1})['midinote'] == [64.0]
    assert pitch({'degree': 0, 'gtranspose': 1, 'root': 2,
                  'octave': 4})['midinote'] == [51.0]
    # ctranspose on an explicit midinote; harmonic and detune on the result
    r = pitch({'midinote': 69, 'ctranspose': 12, 'harmonic': 2, 'detune': 3})
    assert r['freq_sent'] == [880.0 * 2 + 3]
    # explicit keys win: freq over midinote over note over degree
    r = pitch({'freq': 100.0, 'midinote': 69, 'degree': 3})
    assert r['freq'] == [100.0] and r['midinote'] == [69]
    assert among(100.0, r['freq_sent'])
    assert pitch({'note': 7, 'degree': 1})['midinote'] == [67.0]
    # Scale help: Scale.major(\just): the third degree is a pure 5/4
    r = pitch({'degree': 2, 'scale': 'major_just'})
    assert among(60 + 12 * math.log2(5 / 4), r['midinote'])
    assert not among(64.0, r['midinote'])
    # quarter-tone tuning: 24 steps per octave, the 5th step is 2.5 semitones
    r = pitch({'degree': 1, 'scale': 'major_et24'})
    assert r['midinote'] == [62.0]
    # Bohlen-Pierce: 13 steps per tritave; degree 13 is 3/1 above
    r = pitch({'degree': 13, 'scale': 'bp'})
    assert among(60 + 12 * math.log2(3), r['midinote'])
    # amplitude: -20 dB == 0.1; -6 dB ~ 0.501; velocity 127 == 1.0
    assert amp({})['amp'] == [0.1]
    assert among(0.5011872336272722, amp({'db': -6})['amp'])
    assert amp({'velocity': 127})['amp'] == [1.0]
    assert amp({'amp': 0.3, 'db': -6})['amp'] == [0.3]
    # duration: sustain = dur * legato * stretch, delta = dur * stretch
    assert close(dur({})['sustain'], 0.8) and dur({})['delta'] == 1.0
    assert dur({'dur': 0.5, 'stretch': 2, 'legato': 0.5}) == \
        {'delta': 1.0, 'sustain': 0.5}
    assert dur({'dur': 0.5, 'delta': 2, 'sustain': 3}) == \
        {'delta': 2, 'sustain': 3}
    assert dur({'dur': {'Rest': 0.5}})['delta'] == 0.5
    # note message: only the defined controls of the instrument
    s = note_spec({'degree': 2, 'pan': 0.5, 'cutoff': 3}, ['freq', 'amp',
                                                           'pan', 'gate'])
    assert sorted(s['required']) == ['freq', 'pan'] and \
        sorted(s['optional']) == ['amp'] and s['has_gate']
    # players
    pb = ['Pbind', {'midinote': ['Pseq', [60, 61, 62], 1],
                    'dur': ['Pseq', [0.5, 0.25, 1], 1]}]
    evs, tot = denote(pb)
    assert [e['t'] for e in evs] == [0.0, 0.5, 0.75] and tot == 1.75
    # Pfindur help: the last delta is cut, nothing starts at or after d
    evs, tot = denote(['Pdur', 0.75, pb])
    assert [e['t'] for e in evs] == [0.0, 0.5] and tot == 0.75
    evs, tot = denote(['Pdur', 5, pb])
    assert len(evs) == 3 and tot == 1.75
    inf = ['Pbind', {'midinote': ['Pseries', 30, 1], 'dur': 0.5}]
    evs, tot = denote(['Pseq', [['Pdur', 1.25, inf], pb]])
    assert [e['t'] for e in evs] == [0.0, 0.5, 1.0, 1.25, 1.75, 2.0]
    # Ppar: every child keeps its own timeline; total is the longest child
    evs, tot = denote(['Ppar', [pb, ['Pdelta', 0.25, inf[:1] + [
        {'midinote': ['Pseq', [40, 41], 1], 'dur': 1}]]]])
    assert [(e['t'], e['ev']['midinote']) for e in evs] == \
        [(0.0, 60), (0.25, 40), (0.5, 61), (0.75, 62), (1.25, 41)]
    assert tot == 2.25
    # Pchain: the left pattern overrides, the shortest ends it
    evs, tot = denote(['Pchain', [['Pbind', {'dur': ['Pseq', [1, 1], 1]}],
                                  pb]])
    assert [e['t'] for e in evs] == [0.0, 1.0] and tot == 2.0
    # Pconst help: Pconst(Pseq([1, 1, 1]), 2.5) -> 1, 1, 0.5
    assert list(vp_iter(['Pconst', ['Pseq', [1, 1, 1], 1], 2.5])) == \
        [1, 1, 0.5]
    assert list(vp_iter(['Pconst', ['Pseq', [0.5], 2], 2])) == [0.5, 0.5, 1.0]
    evs, tot = denote(['Pbind', {'midinote': ['Pseries', 30, 1],
                                 'dur': ['Pconst', ['Pseq', [0.5, 0.25],
                                                    'inf'], 1.5]}])
    assert [e['t'] for e in evs] == [0.0, 0.5, 0.75, 1.25] and tot == 1.5
    # Psync help: the total is a multiple of quant, at most the limit
    evs, tot = denote(['Pdur', 4, ['Pbind', {'dur': ['Pseq', [0.5, 0.25],
                                                     1]}], {'quant': 1}])
    assert tot == 1.0 and len(evs) == 2
    evs, tot = denote(['Pdur', 0.5, ['Pbind', {'dur': ['Pseq', [0.5, 0.25],
                                                       1]}], {'quant': 1}])
    assert tot == 0.5 and len(evs) == 1
    # key sets
    evs, tot = denote(['Pbind', {'midinote+dur': ['Pseq', [[40, 0.5],
                                                           [41, 0.25]], 1]}])
    assert [e['ev']['midinote'] for e in evs] == [40, 41] and tot == 0.75
    # simultaneous events
    evs, tot = denote(['Pbind', {'dur': ['Pseq', [0.5, 0, 0.25], 1]}])
    assert [e['t'] for e in evs] == [0.0, 0.5, 0.5] and tot == 0.75
    # input event: stretch 2 doubles every child's timeline
    par = ['Ppar', [['Pbind', {'midinote': ['Pseq', [40], 1],
                               'dur': ['Pseq', [0.5], 1]}],
                    ['Pbind', {'midinote': ['Pseq', [60, 61], 1],
                               'dur': ['Pseq', [1, 1], 1]}]]]
    evs, tot = denote(par, proto={'stretch': 2})
    assert [e['t'] for e in evs] == [0.0, 0.0, 2.0] and tot == 4.0
    evs2, tot2 = denote(['Pchain', [par, ['Pbind', {'stretch': 2}]]])
    assert [e['t'] for e in evs2] == [0.0, 0.0, 2.0] and tot2 == 4.0
    evs, tot = denote(['Pchain', [['Pbind', {'amp': 0.3}], par]])
    assert all(e['ev']['amp'] == 0.3 for e in evs) and tot == 2.0
    # PmonoArtic help: legato < 1 re-articulates, otherwise one synth
    art = ['Pmono', 'x', {'dur': ['Pseq', [0.5, 0.25, 1], 1]},
           {'articulate': True}]
    evs, tot = denote(art)
    assert [e['mono'] for e in evs] == [None, None, None]
    art[2]['legato'] = 1
    evs, tot = denote(art)
    assert [e['mono'] for e in evs] == [[1, 0], [1, 1], [1, 2]]
    art[2]['legato'] = ['Pseq', [1, 0.5, 1], 1]
    evs, tot = denote(art)
    assert [e['mono'] for e in evs] == [[1, 0], [1, 1], [2, 0]]
    assert add_action_number('t') == 1 and add_action_number(3) == 3
    # a rest is a rest however it is spelt
    assert is_rest({'type': 'rest'}) and is_rest({'degree': {'Rest': None}})
    assert is_rest({'dur': {'Rest': 0.5}}) and not is_rest({'dur': 0.5})


if __name__ == '__main__':
    selftest()
    print('ok')
