"""Reference semantics of multichannel expansion (the wrap-and-zip law),
written from the SuperCollider "Multichannel Expansion" guide and the C03
statement; never imports sc3.

Argument *specs* are plain data:
    ['s', id]          a scalar atom (number or unit generator, never expanded)
    ['t', x, y, ...]   a tuple of specs (never expanded, passed as one value)
    ['l', x, y, ...]   a Python list of specs (expanded)
    ['c', x, y, ...]   a channel list of specs (expanded exactly like a list)
    ['k', x]           a channel list made from ONE non-list value x (a scalar
                       or a tuple): a channel list of length one holding x
    ['e', x, y, ...]   a channel list whose FINAL content is x, y, ... after
                       in-place list edits (item assignment, append, extend,
                       insert, del ...): expanded exactly like ['c', x, y, ...]
                       - only the content at the time of the call counts
    ['o']              omitted (the callee's default fills the position)

expand(args) -> tree
    ['call', [spec, ...]]           no argument is a list: one plain call
    ['cl', [tree, ...]]             a channel list, one entry per index i of
                                    the longest list; entry i is the expansion
                                    of the call whose list arguments are
                                    replaced by their element i mod len
Nested lists are handled by the recursion (the element that replaces a list
may itself be a list)."""


def is_list(spec):
    return spec[0] in ('l', 'c', 'k', 'e')


def expand(args):
    n = 0
    for a in args:
        if is_list(a):
            if len(a) == 1:
                raise ValueError('empty list: not decided by the law')
            n = max(n, len(a) - 1)
    if n == 0:
        return ['call', list(args)]
    out = []
    for i in range(n):
        sub = [a[1 + i % (len(a) - 1)] if is_list(a) else a for a in args]
        out.append(expand(sub))
    return ['cl', out]


def calls(tree):
    """All plain calls of an expansion tree in depth-first order."""
    if tree[0] == 'call':
        return [tree[1]]
    out = []
    for t in tree[1]:
        out += calls(t)
    return out


def has_expansion(args):
    """Non-triviality rule of C03: some argument is a list of length >= 2
    (at any nesting depth of a list argument)."""
    def rec(s):
        if is_list(s):
            return len(s) - 1 >= 2 or any(rec(x) for x in s[1:])
        return False
    return any(rec(a) for a in args)


def atoms(spec, out=None):
    """Atom ids of a spec in left-to-right order."""
    out = [] if out is None else out
    if spec[0] == 's':
        out.append(spec[1])
    elif spec[0] in ('t', 'l', 'c', 'k', 'e'):
        for x in spec[1:]:
            atoms(x, out)
    return out


# --- output units -----------------------------------------------------------

SILENCE = ['u', 'DC', 2, [['c', 0.0]]]


def out_units(name, rate, fixed, chans, atom_term):
    """Expected output units of `Name.ar/kr(*fixed, chans)`.

    fixed: specs of the leading arguments (bus[, xfade]); chans: list of specs
    forming the channel array (its top level is the array itself, not an
    expansion dimension).  atom_term(id) -> term of an atom: ['c', float] for
    a number or ['u', name, rate, inputs] for a unit.  For audio rate, literal
    zeros anywhere in the channel array become audio-rate silence.
    -> list of ['u', name, rate, [input terms]] one per combination."""
    def silence(spec):
        if spec[0] == 's':
            t = atom_term(spec[1])
            if rate == 2 and t[0] == 'c' and t[1] == 0.0:
                return ['S']
            return spec
        return [spec[0]] + [silence(x) for x in spec[1:]]

    def term(spec):
        if spec[0] == 'S':
            return SILENCE
        return atom_term(spec[1])

    args = list(fixed) + [silence(c) for c in chans]
    units = []
    for call in calls(expand(args)):
        units.append(['u', name, rate, [term(a) for a in call]])
    return units


def selftest():
    s = lambda i: ['s', i]
    # SinOsc.ar([440, 660], [0.1, 0.2, 0.3]) -> three channels, wrap + zip
    t = expand([['l', s(440), s(660)], ['l', s(1), s(2), s(3)]])
    assert t[0] == 'cl' and len(t[1]) == 3
    assert calls(t) == [[s(440), s(1)], [s(660), s(2)], [s(440), s(3)]]
    # scalars and tuples are not expanded
    assert expand([s(1), ['t', s(2), s(3)], ['o']]) == \
        ['call', [s(1), ['t', s(2), s(3)], ['o']]]
    # nested: [[a, b], c] with scalar d -> [[f(a,d), f(b,d)], f(c,d)]
    t = expand([['l', ['l', s('a'), s('b')], s('c')], s('d')])
    assert t == ['cl', [['cl', [['call', [s('a'), s('d')]],
                                ['call', [s('b'), s('d')]]]],
                        ['call', [s('c'), s('d')]]]]
    # a channel list expands like a list; a one-element list still yields a
    # channel list of length one
    assert expand([['c', s(1)]]) == ['cl', [['call', [s(1)]]]]
    # ChannelList(scalar) / ChannelList(tuple): one channel, the tuple opaque
    assert expand([['k', ['t', s(1), s(2)]], ['l', s(3), s(4)]]) == \
        ['cl', [['call', [['t', s(1), s(2)], s(3)]],
                ['call', [['t', s(1), s(2)], s(4)]]]]
    # an edited channel list counts with its final content
    assert expand([['e', s(1), s(2)], s(3)]) == expand([['c', s(1), s(2)], s(3)])
    # wrap, not fold: lengths 4 and 3
    t = expand([['l', s(0), s(1), s(2), s(3)], ['l', s(5), s(6), s(7)]])
    assert calls(t)[3] == [s(3), s(5)]
    assert has_expansion([['l', ['l', s(1), s(2)]]])
    assert not has_expansion([['l', s(1)], ['t', s(1), s(2)]])
    # Out.ar(0, [a, 0]) : one unit, zero replaced by silence
    at = {0: ['c', 0.0], 'a': ['u', 'SinOsc', 2, [['c', 5.0], ['c', 0.0]]],
          'z': ['c', 0.0], 9: ['c', 9.0]}
    u = out_units('Out', 2, [s(0)], [s('a'), s('z')], at.get)
    assert u == [['u', 'Out', 2, [['c', 0.0], at['a'], SILENCE]]], u
    # Out.ar([0, 9], [[a, 0], a]) -> two units (bus wraps with the nested list)
    u = out_units('Out', 2, [['l', s(0), s(9)]],
                  [['l', s('a'), s('z')], s('a')], at.get)
    assert u == [['u', 'Out', 2, [['c', 0.0], at['a'], at['a']]],
                 ['u', 'Out', 2, [['c', 9.0], SILENCE, at['a']]]], u
    # control rate: zeros stay as they are
    u = out_units('Out', 1, [s(0)], [s('z')], at.get)
    assert u == [['u', 'Out', 1, [['c', 0.0], ['c', 0.0]]]]
    return True


if __name__ == '__main__':
    selftest()
    print('mcexpand selftest ok')
