"""Reference state machine of routines, conditions and flow variables (C11).

Written from the docstrings of sc3/base/stream.py, docs/guides/routine.rst and
the property statement; never imports sc3.  Deliberately boring: a routine is
a record (state, program counter into a straight-line script, recorded
terminal value), a condition is (test, list of waiting routine names), a flow
variable is (value or UNBOUND, condition), the clock is a flag per routine:
is a wake-up owed to it (scheduling a task that is already pending on its clock
moves it, it is not scheduled twice - TaskQueue.add docstring, and the same in
the NRT scheduler).

Bodies are *data* (the same data the check interprets with a real generator
function on the real Routine):

  spec   = {'kind': 'gen' | 'fn', 'param': bool, 'runs': [script, script...]}
  script = [action, ...]; the k-th start of the body (first next() after
           creation / reset() / YieldAndReset) runs runs[min(k, len-1)]
  action = ['yield', v]            yield v (v number: the clock re-schedules)
           ['echo']                yield the value last received
           ['return']              return (also: running off the end)
           ['raise', cls]          raise cls (an ordinary failure)
           ['yar', v]              raise YieldAndReset(v)
           ['ay', v]               raise AlwaysYield(v)
           ['call', tgt, meth, m]  tgt.meth() with tgt 'self' or a routine
                                   name; m = 'c' the body catches exceptions,
                                   m = 'p' they propagate (body fails)
           ['embed', tgt]          last = yield from tgt.__embed__(last): every
                                   value of routine tgt is yielded on by this
                                   routine, the values sent in are passed to
                                   tgt.next(); ends when tgt.next() raises
                                   StopStream (or its subclass PausedStream),
                                   other exceptions propagate
                                   [Stream.__embed__ docstring + source of
                                   the public protocol, guide: embedding]
           ['wait', c]             yield from cond.wait()
           ['fvget', f]            last = yield from flowvar.value
           ['set', c, bool] ['signal', c] ['unhang', c]
           ['fvset', f, v, m]      flowvar.value = v (m as above)

Documented behaviour encoded here (source in brackets):

* next() runs the body to its next yield and returns the yielded value; the
  sent value becomes the value of the yield / the initial argument [next
  docstring, statement].
* exhaustion raises StopStream [guide]; a plain function body is an endless
  None stream [test_common_function, comment in next()], i.e. it records the
  terminal value None.
* AlwaysYield(v) records v as terminal value, every later next() returns it;
  YieldAndReset(v) returns v and the next next() starts the body again
  [class names, test_always_yield, test_yield_and_reset, statement].
* failure (any other exception escaping the body) propagates and leaves the
  routine Done; stop() makes it Done; Done: next() returns the recorded
  terminal value if there is one, else raises StopStream, until reset()
  [statement]; reset() returns to the initial state [reset docstring].
* pause(): next() raises PausedStream until resume(); pause/resume are
  no-ops in the other states [docstrings: "does nothing if wasn't paused"].
* stop/pause/reset from inside the routine itself are refused with
  RoutineException [docstrings]; a re-entrant next() of a running routine
  cannot "run it to its next yield": an exception of unspecified class ('*')
  is expected and nothing changes.
* an exception derived from StopIteration that escapes a *generator* body is
  turned into RuntimeError by Python itself (PEP 479).
* a routine that is stopped or reset while parked on a condition is not
  waiting any more [statement: only a *waiting* routine is resumed].
* Condition.wait(): parks the routine (non numeric yield) if the test is
  false, else re-schedules it immediately (yield 0); signal(): if the test
  is true every parked routine is re-scheduled once and the list is emptied;
  unhang(): the same without looking at the test; FlowVar: reading waits for
  the value, assignment signals, a second assignment raises [docstrings].

Don't-cares: play() on a paused routine (the statement says "until
resume()", the library treats it as resume; `observed` decides), the class of
the exception of a re-entrant next()."""

NUM = (int, float)


def is_number(v):
    return isinstance(v, NUM) and not isinstance(v, bool)


def ret(v):
    return ['ret', v]


def exc(c):
    return ['exc', c]


def outcome_matches(expected, observed):
    """expected may contain the wildcard exception class '*'."""
    if expected == observed:
        return True
    return (expected[0] == 'exc' and observed[0] == 'exc' and
            expected[1] == '*')


def log_matches(expected, observed):
    if len(expected) != len(observed):
        return False
    for e, o in zip(expected, observed):
        if e[:2] != o[:2] or not outcome_matches(e[2], o[2]):
            return False
    return True


UNBOUND = '<unbound>'
STOPITER = ('StopStream', 'PausedStream', 'StopIteration')


class RefCond:
    """`test` is a bool or ['flag', name]: a callable predicate that returns
    the current value of the world's flag `name` (Condition docstring: "it
    can be a callable that return a boolean"); it is evaluated each time the
    condition is looked at."""

    def __init__(self, test=False):
        self.test = test
        self.waiting = []


class RefFlowVar:
    def __init__(self):
        self.value = UNBOUND
        self.cond = RefCond()


class RefRoutine:
    def __init__(self, world, name, spec):
        self.world = world
        self.name = name
        self.spec = spec
        self.kind = spec['kind']
        self.state = 'Init'
        self.run = 0            # how many times the body was started
        self.pc = None          # None: body not started in this life
        self.script = None
        self.last = None
        self.susp = None        # what the body is suspended in
        self.has_terminal = False
        self.terminal = None

    # -- methods callable from outside and from bodies ----------------------
    def call(self, meth, *args, observed=None):
        if meth == 'play':
            return self.play(observed)
        return getattr(self, meth)(*args)

    def next(self, inval=None):
        w = self.world
        if self.state == 'Running':
            w.reentered = True
            return exc('*')
        if self.state == 'Paused':
            return exc('PausedStream')
        if self.state == 'Done':
            if self.has_terminal:
                return ret(self.terminal)
            return exc('StopStream')
        if self.pc is None:
            runs = self.spec['runs']
            self.script = runs[min(self.run, len(runs) - 1)]
            self.run += 1
            self.pc = 0
            self.last = inval if self.spec.get('param') else None
        elif self.susp == 'yield':
            self.last = inval
        elif self.susp is not None and self.susp[0] == 'fv':
            self.last = w.fvs[self.susp[1]].value
        self.susp = None
        self.state = 'Running'
        w.stack.append(self.name)
        try:
            return self._run()
        finally:
            w.stack.pop()

    def pause(self):
        if self.state == 'Running':
            return exc('RoutineException')
        if self.state in ('Init', 'Suspended'):
            self.state = 'Paused'
        return ret(None)

    def resume(self):
        if self.state == 'Paused':
            self.state = 'Suspended'
            self.world.pending[self.name] = 1
        return ret(None)

    def play(self, observed=None):
        if self.state == 'Init' or (self.state == 'Paused' and
                                    observed != 'Paused'):
            self.state = 'Suspended'
            self.world.pending[self.name] = 1
        return ret(None)

    def stop(self):
        if self.state == 'Running':
            return exc('RoutineException')
        self.state = 'Done'
        self.pc = None
        self.world.drop_waiter(self.name)
        return ret(None)

    def reset(self):
        if self.state == 'Running':
            return exc('RoutineException')
        self.world.drop_waiter(self.name)
        self.state = 'Init'
        self.pc = None
        self.has_terminal = False
        self.terminal = None
        return ret(None)

    # -- body interpreter ------------------------------------------------------
    def _suspend(self, value, how):
        self.state = 'Suspended'
        self.susp = how
        return ret(value)

    def _finish(self):
        self.state = 'Done'
        self.pc = None
        if self.kind == 'fn':
            self.has_terminal = True
            self.terminal = None
            return ret(None)
        return exc('StopStream')

    def _fail(self, cls):
        if self.kind == 'gen' and cls in STOPITER:
            cls = 'RuntimeError'        # PEP 479
        self.state = 'Done'
        self.pc = None
        return exc(cls)

    def _run(self):
        w = self.world
        while True:
            if self.pc >= len(self.script):
                return self._finish()
            idx = self.pc
            act = self.script[idx]
            self.pc += 1
            a = act[0]
            if a == 'yield':
                return self._suspend(act[1], 'yield')
            if a == 'echo':
                return self._suspend(self.last, 'yield')
            if a == 'return':
                return self._finish()
            if a == 'raise':
                return self._fail(act[1])
            if a == 'yar':
                self.state = 'Init'
                self.pc = None
                return ret(act[1])
            if a == 'ay':
                self.state = 'Done'
                self.pc = None
                self.has_terminal = True
                self.terminal = act[1]
                return ret(act[1])
            if a == 'call':
                tgt = self.name if act[1] == 'self' else act[1]
                out = w.r[tgt].call(act[2])
                w.log.append([self.name, idx, out])
                if out[0] == 'ret':
                    if act[2] == 'next':
                        self.last = out[1]
                elif act[3] == 'p':
                    return self._fail(out[1])
                continue
            if a == 'embed':
                out = w.r[act[1]].call('next', self.last)
                if out[0] == 'exc':
                    if out[1] in ('StopStream', 'PausedStream'):
                        continue            # embedded stream ended
                    return self._fail(out[1])
                self.pc = idx               # stay in the embedding loop
                return self._suspend(out[1], 'yield')
            if a == 'wait':
                c = w.conds[act[1]]
                if w.holds(c):
                    return self._suspend(0, ['wait'])
                c.waiting.append(w.stack[0])    # the playing (outermost) one
                return self._suspend('hang', ['wait'])
            if a == 'fvget':
                f = w.fvs[act[1]]
                if f.value is not UNBOUND:
                    return self._suspend(0, ['fv', act[1]])
                f.cond.waiting.append(w.stack[0])
                return self._suspend('hang', ['fv', act[1]])
            if a == 'set':
                w.conds[act[1]].test = act[2]
                continue
            if a == 'signal':
                w.signal(act[1])
                continue
            if a == 'unhang':
                w.unhang(act[1])
                continue
            if a == 'fvset':
                out = w.fvset(act[1], act[2])
                w.log.append([self.name, idx, out])
                if out[0] == 'exc' and act[3] == 'p':
                    return self._fail(out[1])
                continue
            raise ValueError(f'bad action {act}')

    def snapshot(self):
        return [self.state, self.run, self.pc, self.last, self.susp,
                self.has_terminal, self.terminal]


class RefWorld:
    def __init__(self, specs, conds=(), fvs=(), flags=(), cond_init=None):
        self.r = {n: RefRoutine(self, n, s) for n, s in specs.items()}
        self.flags = {g: False for g in flags}
        self.conds = {c: RefCond((cond_init or {}).get(c, False))
                      for c in conds}
        self.fvs = {f: RefFlowVar() for f in fvs}
        self.pending = {n: 0 for n in specs}
        self.stack = []
        self.log = []
        self.reentered = False      # a re-entrant next() happened so far
        self.stale = set()          # routines stopped / reset while parked

    # -- operations from the main thread ------------------------------------
    def signal(self, c):
        self._release(self.conds[c], False)

    def unhang(self, c):
        self._release(self.conds[c], True)

    def holds(self, cond):
        """The truth value of the test *now* (callables are evaluated)."""
        t = cond.test
        if isinstance(t, list) and t[0] == 'flag':
            return bool(self.flags[t[1]])
        return bool(t)

    def set_flag(self, g, v):
        self.flags[g] = v

    def fvsignal(self, f):
        """flowvar.condition.signal(): the flow variable's own test is
        "the value is bound"."""
        self._release(self.fvs[f].cond, False)

    def _release(self, cond, force):
        if force or self.holds(cond):
            for n in cond.waiting:
                self.pending[n] = 1
            cond.waiting = []

    def set(self, c, v):
        self.conds[c].test = v

    def drop_waiter(self, name):
        """A routine that is stopped or reset is not waiting any more: a later
        signal must not resume whatever it does by then."""
        for c in list(self.conds.values()) + [f.cond
                                              for f in self.fvs.values()]:
            if name in c.waiting:
                c.waiting = [n for n in c.waiting if n != name]
                self.stale.add(name)

    def owed(self, name):
        return self.pending[name] > 0

    def advances(self, name):
        """Would a wake-up make the body of `name` run?"""
        return self.r[name].state in ('Init', 'Suspended')

    def fvset(self, f, v):
        fv = self.fvs[f]
        if fv.value is not UNBOUND:
            return exc('Exception')
        fv.value = v
        fv.cond.test = True
        self._release(fv.cond, False)
        return ret(None)

    def wake(self, name):
        """The clock runs one wake-up owed to `name`: next((routine, clock));
        a numeric result is re-scheduled."""
        self.pending[name] = 0      # (a wake-up nobody owes is harmless if
        out = self.r[name].next('RC:' + name)   # the body cannot run)
        if out[0] == 'ret' and is_number(out[1]):
            self.pending[name] = 1
        return out

    def states(self):
        return {n: r.state for n, r in self.r.items()}

    def snapshot(self):
        return [{n: r.snapshot() for n, r in self.r.items()},
                {c: [x.test, x.waiting] for c, x in self.conds.items()},
                {f: [x.value, x.cond.waiting] for f, x in self.fvs.items()},
                self.pending, self.flags]


# ---------------------------------------------------------------------------

def selftest():
    G = lambda *runs, **kw: dict({'kind': 'gen', 'runs': list(runs)}, **kw)
    F = lambda *runs, **kw: dict({'kind': 'fn', 'runs': list(runs)}, **kw)

    # guide: three yields then StopStream; test_states
    w = RefWorld({'r': G([['yield', 0], ['yield', 1]])})
    r = w.r['r']
    assert r.state == 'Init'
    assert r.next() == ret(0) and r.state == 'Suspended'
    assert r.next() == ret(1) and r.state == 'Suspended'
    assert r.next() == exc('StopStream') and r.state == 'Done'
    assert r.next() == exc('StopStream')
    r.reset()
    assert r.state == 'Init' and r.next() == ret(0)
    # test_stop_reset
    r.stop()
    assert r.state == 'Done' and r.next() == exc('StopStream')
    r.reset()
    assert r.next() == ret(0) and r.next() == ret(1)
    # pause / resume (test_states)
    w = RefWorld({'r': G([['yield', 1]])})
    r = w.r['r']
    r.pause()
    assert r.state == 'Paused' and r.next() == exc('PausedStream')
    assert r.state == 'Paused'
    r.resume()
    assert r.state == 'Suspended' and w.pending['r'] == 1
    assert r.next() == ret(1) and r.next() == exc('StopStream')
    r.reset()
    r.stop()
    assert r.state == 'Done'
    # common function: endless None (test_common_function)
    w = RefWorld({'r': F([])})
    r = w.r['r']
    assert [r.next(), r.next(123), r.next()] == [ret(None)] * 3
    assert r.state == 'Done'
    r.reset()
    assert r.state == 'Init' and r.next() == ret(None)
    # test_always_yield, and reset() forgets the terminal value
    w = RefWorld({'r': G([['ay', 123]], [['yield', 1]])})
    r = w.r['r']
    assert [r.next(), r.next(), r.next()] == [ret(123)] * 3
    r.stop()
    assert r.next() == ret(123)
    r.reset()
    assert r.next() == ret(1) and r.next() == exc('StopStream')
    # test_yield_and_reset
    w = RefWorld({'r': G([['yield', None], ['yar', 123]])})
    r = w.r['r']
    assert r.next() == ret(None) and r.state == 'Suspended'
    assert r.next() == ret(123) and r.state == 'Init'
    assert r.next() == ret(None)
    # send, failure, refusal inside, nested
    w = RefWorld({'r': G([['echo'], ['echo'], ['raise', 'ValueError']],
                         param=True)})
    r = w.r['r']
    assert r.next(7) == ret(7) and r.next(8) == ret(8)
    assert r.next() == exc('ValueError') and r.state == 'Done'
    assert r.next() == exc('StopStream')
    w = RefWorld({'o': G([['call', 'self', 'stop', 'c'],
                          ['call', 'self', 'next', 'c'],
                          ['call', 'i', 'next', 'p'], ['echo'],
                          ['call', 'i', 'next', 'p']]),
                  'i': G([['yield', 'a']])})
    o = w.r['o']
    assert o.next() == ret('a') and o.state == 'Suspended'
    assert w.log == [['o', 0, exc('RoutineException')], ['o', 1, exc('*')],
                     ['o', 2, ret('a')]]
    assert o.next() == exc('RuntimeError') and o.state == 'Done'   # PEP 479
    assert w.r['i'].state == 'Done'
    assert outcome_matches(exc('*'), exc('ValueError'))
    assert not outcome_matches(exc('*'), ret(1))
    # Condition docstring: wait, test = True, signal
    w = RefWorld({'a': G([['wait', 'c'], ['yield', 'x']]),
                  'b': G([['wait', 'c'], ['yield', 'y']])}, conds=['c'])
    w.r['a'].play()
    w.r['b'].play()
    assert w.wake('a') == ret('hang') and w.wake('b') == ret('hang')
    assert w.pending == {'a': 0, 'b': 0}
    w.signal('c')                      # test is false: nobody moves
    assert w.pending == {'a': 0, 'b': 0}
    w.set('c', True)
    assert w.pending == {'a': 0, 'b': 0}   # never before the signal
    w.signal('c')
    w.signal('c')
    assert w.pending == {'a': 1, 'b': 1}   # exactly once
    assert w.wake('a') == ret('x') and w.pending['a'] == 0
    # test already true: re-scheduled immediately
    w = RefWorld({'a': G([['wait', 'c'], ['yield', 'x']])}, conds=['c'])
    w.set('c', True)
    w.r['a'].play()
    assert w.wake('a') == ret(0) and w.pending['a'] == 1
    assert w.wake('a') == ret('x')
    # unhang ignores the test
    w = RefWorld({'a': G([['wait', 'c']])}, conds=['c'])
    w.r['a'].play()
    w.wake('a')
    w.unhang('c')
    assert w.pending['a'] == 1
    # callable test: evaluated at signal time, not its mere presence
    w = RefWorld({'a': G([['wait', 'c'], ['yield', 'x']])}, conds=['c'],
                 flags=['g'], cond_init={'c': ['flag', 'g']})
    w.r['a'].play()
    assert w.wake('a') == ret('hang')
    w.signal('c')
    assert w.pending['a'] == 0          # predicate returns False
    w.set_flag('g', True)
    assert w.pending['a'] == 0          # never before the signal
    w.signal('c')
    assert w.pending['a'] == 1
    w = RefWorld({'a': G([['fvget', 'f'], ['echo']])}, fvs=['f'])
    w.r['a'].play()
    w.wake('a')
    w.fvsignal('f')
    assert w.pending['a'] == 0          # unbound: signal releases nobody
    w.fvset('f', 3)
    assert w.pending['a'] == 1 and w.wake('a') == ret(3)
    # stopped / reset while parked: not waiting any more
    w = RefWorld({'a': G([['wait', 'c']], [['yield', 'x']])}, conds=['c'])
    w.r['a'].play()
    w.wake('a')
    w.r['a'].reset()
    w.unhang('c')
    assert w.pending['a'] == 0 and w.stale == {'a'} and not w.owed('a')
    # embedding: the values of the embedded routine are yielded on, sent
    # values reach it, its end (StopStream) ends the embedding; waiting inside
    # an embedded routine parks the playing (outermost) routine
    w = RefWorld({'o': G([['embed', 'i'], ['yield', 'x']]),
                  'i': G([['yield', 1], ['echo']])})
    o = w.r['o']
    assert o.next() == ret(1) and o.next(7) == ret(7)
    assert o.next() == ret('x') and w.r['i'].state == 'Done'
    assert o.next() == exc('StopStream')
    w = RefWorld({'o': G([['embed', 'i']]), 'i': G([['wait', 'c']])},
                 conds=['c'])
    w.r['o'].play()
    assert w.wake('o') == ret('hang') and w.conds['c'].waiting == ['o']
    w.unhang('c')
    assert w.pending == {'o': 1, 'i': 0}
    assert w.wake('o') == exc('StopStream')
    # FlowVar docstring
    w = RefWorld({'a': G([['fvget', 'f'], ['echo']])}, fvs=['f'])
    w.r['a'].play()
    assert w.wake('a') == ret('hang')
    assert w.fvset('f', 'hello') == ret(None) and w.pending['a'] == 1
    assert w.fvset('f', 'again') == exc('Exception')
    assert w.wake('a') == ret('hello') and w.pending['a'] == 0
    return True


if __name__ == '__main__':
    selftest()
    print('routine_ref selftest ok')
