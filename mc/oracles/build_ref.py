"""Reference model of the definition-build context (property C20); never imports
sc3.

The model is deliberately boring: the observable build state is the pair
(current definition, build lock) and *every* operation - a build that succeeds,
a build that raises anywhere, reading a description back, creating units outside
any build - leaves it at (None, free).  The result of a build is a pure function
of the operation: it equals the entry of a reference table that was filled by
building every definition once in a pristine process.

observation of one step (plain data):
    {'outcome': ['ok', <sha1 of bytes>] | ['raise', <exception class name>]
                | ['bare', <all units unattached: bool>],
     'ctx_none': bool,     main._current_synthdef is None after the step
     'lock_free': bool,    the build lock could be taken without blocking
     'probe_none': bool}   a unit created now, outside any build, has no definition
"""

from mc.oracles import scgf

PRISTINE = {'ctx_none': True, 'lock_free': True, 'probe_none': True}


# add:<definition>    build, then SynthDef.add()
# deco:<definition>   build through the @synthdef decorator (build + add)
# store:<definition>  build, store() into a scratch directory, read the files
# late:<definition>   build, other library use, only then write the bytes
LIB_ROUTES = ('add:', 'deco:', 'store:')
# touch:<definition>  build (without variants / metadata), then write in place
#                     to everything the definition and its description hand
#                     out: sd.metadata, sd.variants, desc.metadata, desc lists
# hook:<definition>   build, store() with a populate_metadata_func hook that
#                     writes specs into desc.metadata
# touchsys            the same writes on the system definitions
TOUCH_ROUTES = ('touch:', 'hook:')


def op_class(op):
    """Class of an operation id, used to keep disagreement kinds apart."""
    if op == 'f:intr':
        return 'interrupted-build'
    if op.startswith('f:'):
        return 'failed-build'
    if op.startswith('g:'):
        return 'good-build'
    if op.startswith('desc:'):
        return 'desc-read'
    if op.startswith(LIB_ROUTES):
        return 'def-registration'
    if op.startswith(TOUCH_ROUTES) or op == 'touchsys':
        return 'use-of-handed-out-objects'
    if op.startswith('late:'):
        return 'deferred-write'
    if op == 'bare':
        return 'outside-units'
    raise ValueError(op)


def ref_key(op):
    """The definition whose bytes an operation must reproduce (or None)."""
    if op.startswith(('g:', 'f:')):
        return op
    if op.startswith('desc:'):
        # desc:<definition>[:nokeep|:bad]
        key = op[5:]
        for suffix in (':nokeep', ':bad'):
            if key.endswith(suffix):
                key = key[:-len(suffix)]
        return key
    if op.startswith(LIB_ROUTES + TOUCH_ROUTES + ('late:',)):
        return op.split(':', 1)[1]
    return None


def judge_outcome(op, refs, outcome, prefix=''):
    """Disagreements of one operation's result with the reference table.
    The exception class of a failing build is a don't-care, so is whatever
    SynthDesc.new_from returns or raises."""
    dis = []
    key = ref_key(op)
    if key is None:
        if outcome[0] != 'bare':
            dis.append((prefix + 'outside-units-raise', ['bare', True],
                        outcome, op))
        elif not outcome[1]:
            dis.append((prefix + 'outside-unit-attached-to-definition',
                        'units created outside any build have no definition',
                        outcome, op))
        return dis
    want = refs[key]
    if want[0] != outcome[0]:
        dis.append((prefix + 'build-outcome-differs-from-reference', want,
                    outcome, f'{op}: raises/returns differs from the build '
                    'in a pristine process'))
    elif want[0] == 'ok' and want[1] != outcome[1]:
        dis.append((prefix + 'build-bytes-differ-from-reference', want,
                    outcome, f'{op}: bytes differ from the build in a '
                    'pristine process'))
    return dis


def judge_state(op, post, prefix=''):
    """Disagreements of the observable build state after `op` with the
    pristine state.  A unit attached because the context leaked is the same
    defect as the leak and is not reported twice."""
    dis = []
    cls = op_class(op)
    if not post['ctx_none']:
        dis.append((prefix + 'context-left-set-after-' + cls,
                    'no current definition', post.get('ctx_repr', 'set'), op))
    elif not post['probe_none']:
        dis.append((prefix + 'outside-unit-attached-to-definition',
                    'a unit created outside any build has no definition',
                    'attached', f'after {op}'))
    if not post['lock_free']:
        dis.append((prefix + 'build-lock-left-held-after-' + cls,
                    'build lock free', 'held', op))
    return dis


def judge_step(op, refs, obs, prefix=''):
    return judge_outcome(op, refs, obs['outcome'], prefix) + \
        judge_state(op, obs, prefix)


def first_difference(a, b):
    """Human-readable first difference of two definition byte strings."""
    try:
        da = scgf.decode(a)['defs'][0]
        db = scgf.decode(b)['defs'][0]
    except (scgf.FormatError, IndexError) as e:
        return f'undecodable: {e!r}'
    for k in ('name', 'constants', 'params', 'param_names'):
        if da[k] != db[k]:
            return f'{k}: {da[k]!r} != {db[k]!r}'
    if len(da['units']) != len(db['units']):
        return (f'{len(da["units"])} units '
                f'{[u["name"] for u in da["units"]]} != {len(db["units"])} '
                f'units {[u["name"] for u in db["units"]]}')
    for i, (u, w) in enumerate(zip(da['units'], db['units'])):
        if u != w:
            return f'unit {i}: {u!r} != {w!r}'
    if da['variants'] != db['variants']:
        return f'variants: {da["variants"]!r} != {db["variants"]!r}'
    return 'equal after decoding' if a != b else 'equal'


def selftest():
    refs = {'g:p0': ['ok', 'aa'], 'g:ctl': ['ok', 'bb'],
            'f:fn': ['raise', 'ValueError']}
    ok = dict(PRISTINE, outcome=['ok', 'aa'])
    assert judge_step('g:p0', refs, ok) == []
    # exception class of a failing build is not decided
    assert judge_step('f:fn', refs, dict(PRISTINE,
                                         outcome=['raise', 'KeyError'])) == []
    # a failing build that returns, a good build that raises
    assert [d[0] for d in judge_step(
        'f:fn', refs, dict(PRISTINE, outcome=['ok', 'aa']))] == \
        ['build-outcome-differs-from-reference']
    assert [d[0] for d in judge_step(
        'g:p0', refs, dict(PRISTINE, outcome=['raise', 'X']))] == \
        ['build-outcome-differs-from-reference']
    assert [d[0] for d in judge_step(
        'g:p0', refs, dict(PRISTINE, outcome=['ok', 'ab']))] == \
        ['build-bytes-differ-from-reference']
    # residue
    leak = dict(PRISTINE, outcome=['raise', 'ValueError'], ctx_none=False,
                probe_none=False)
    assert [d[0] for d in judge_step('f:fn', refs, leak)] == \
        ['context-left-set-after-failed-build']
    held = dict(PRISTINE, outcome=['raise', 'KeyboardInterrupt'],
                lock_free=False)
    assert [d[0] for d in judge_step('f:intr', dict(
        refs, **{'f:intr': ['raise', 'KeyboardInterrupt']}), held)] == \
        ['build-lock-left-held-after-interrupted-build']
    stale = dict(PRISTINE, outcome=['ok', 'bb'], probe_none=False)
    assert [d[0] for d in judge_step('desc:g:ctl', refs, stale)] == \
        ['outside-unit-attached-to-definition']
    assert ref_key('desc:g:ctl:nokeep') == 'g:ctl'
    assert ref_key('desc:g:ctl:bad') == 'g:ctl' and ref_key('bare') is None
    assert ref_key('touch:g:s1') == 'g:s1' and ref_key('touchsys') is None
    assert op_class('hook:g:nd') == op_class('touchsys')
    assert judge_step('touchsys', refs, dict(PRISTINE,
                                             outcome=['bare', True])) == []
    assert ref_key('add:g:ctl') == 'g:ctl' and ref_key('late:g:p0') == 'g:p0'
    assert ref_key('deco:g:s1') == 'g:s1' and ref_key('store:g:sh1') == 'g:sh1'
    assert [d[0] for d in judge_step('add:g:ctl', refs, dict(
        PRISTINE, outcome=['ok', 'bb', 'add-ok'], ctx_none=False))] == \
        ['context-left-set-after-def-registration']
    assert [d[0] for d in judge_step('late:g:p0', refs, dict(
        PRISTINE, outcome=['ok', 'ab']))] == \
        ['build-bytes-differ-from-reference']
    assert judge_step('bare', refs, dict(PRISTINE,
                                         outcome=['bare', True])) == []
    assert [d[0] for d in judge_step('bare', refs, dict(
        PRISTINE, outcome=['bare', False]))] == \
        ['outside-unit-attached-to-definition']
    # the differ explains where two definitions part
    import struct

    def mk(units):
        b = b'SCgf' + struct.pack('>ih', 2, 1) + b'\x01g'
        b += struct.pack('>i', 1) + struct.pack('>f', 440.0)
        b += struct.pack('>i', 0) + struct.pack('>i', 0)
        b += struct.pack('>i', len(units))
        for name in units:
            b += bytes([len(name)]) + name.encode() + struct.pack(
                '>biih', 2, 1, 1, 0) + struct.pack('>ii', -1, 0) + b'\x02'
        return b + struct.pack('>h', 0)
    a, b = mk(['SinOsc', 'Saw']), mk(['Saw', 'SinOsc'])
    assert first_difference(a, a) == 'equal'
    assert first_difference(a, b).startswith('unit 0:')
    assert 'units' in first_difference(a, mk(['SinOsc']))
