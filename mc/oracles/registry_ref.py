"""Reference models of the callback registries of property C18 (system
actions, server actions, notifications): insertion-ordered dicts, written from
the property statement - never imports sc3.

"The callback registries run exactly the actions currently registered, in
registration order."  When an action that is already registered is registered
again the statement does not say whether its place is that of the first or of
the latest registration; every entry therefore carries both ranks and an
order is demanded between two entries only when both ranks agree.
"""


class OrderedReg:
    def __init__(self, ticker):
        self.items = {}         # key -> [first rank, last rank, payload]
        self._tick = ticker

    def add(self, key, payload=None):
        t = self._tick()
        if key in self.items:
            self.items[key][1] = t
            self.items[key][2] = payload
            return False
        self.items[key] = [t, t, payload]
        return True

    def remove(self, key):
        return self.items.pop(key, None) is not None

    def entries(self):
        """[{'key', 'first', 'last', 'payload'}] in first-registration order."""
        return [{'key': k, 'first': v[0], 'last': v[1], 'payload': v[2]}
                for k, v in self.items.items()]

    def __contains__(self, key):
        return key in self.items

    def __len__(self):
        return len(self.items)


class _Ticker:
    def __init__(self):
        self.n = 0

    def __call__(self):
        self.n += 1
        return self.n


def _must_precede(x, y):
    return x['first'] < y['first'] and x['last'] < y['last']


def check_run(groups, observed):
    """groups: list of entry lists (one per registry consulted by the run; the
    order *between* groups is not demanded); observed: list of keys in the
    order they ran.  -> None if `observed` is a merge of the groups that
    respects every demanded order, else a (kind, detail) pair with kind in
    'missing' 'extra' 'order'."""
    from collections import Counter
    exp = Counter(e['key'] for g in groups for e in g)
    obs = Counter(observed)
    if obs - exp:
        return ('extra', sorted((obs - exp).elements(), key=repr))
    if exp - obs:
        return ('missing', sorted((exp - obs).elements(), key=repr))
    used = [set() for _ in groups]

    def place(i):
        if i == len(observed):
            return True
        k = observed[i]
        for gi, g in enumerate(groups):
            for ei, e in enumerate(g):
                if e['key'] != k or ei in used[gi]:
                    continue
                if any(_must_precede(o, e) and oi not in used[gi]
                       for oi, o in enumerate(g) if oi != ei):
                    continue
                used[gi].add(ei)
                if place(i + 1):
                    return True
                used[gi].discard(ei)
        return False
    if place(0):
        return None
    return ('order', list(observed))


class SystemActionRef:
    """CmdPeriod / StartUp / ShutDown: add, remove, do_once, run; StartUp:
    defer (register, or - once the registry has run - evaluate at once).

    `remover` / `target`: the action `remover`, when it runs, removes the
    action `target` from the registry.  "Run exactly the actions currently
    registered": when the remover is demanded to run before the target (both
    registration ranks agree), the target is no longer registered when its
    turn comes and must NOT run; when the target is demanded to run before
    the remover it must run; only when their order is not demanded (one of
    them was registered again while registered) both answers are accepted
    (`run` reports it as optional).  Afterwards it is gone in every case."""

    def __init__(self, remover=None, target=None, track_done=False):
        self.track_done = track_done    # `done` is part of the state
        self.tick = _Ticker()
        self.reg = OrderedReg(self.tick)
        self.nonce = 0
        self.changes = {}
        self.done = False
        self.remover = remover
        self.target = target
        self.optional = []

    def _chg(self, key):
        self.changes[key] = self.changes.get(key, 0) + 1

    def add(self, action, args):
        self.reg.add(('a', action), list(args))
        self._chg(action)

    def remove(self, action):
        if self.reg.remove(('a', action)):
            self._chg(action)

    def do_once(self, action, args):
        self.reg.add(('once', self.nonce, action), list(args))
        self.nonce += 1
        self._chg(('once', action))

    def remove_all(self):
        for k in list(self.reg.items):
            self.reg.remove(k)

    def defer(self, action, args):
        """-> True if the action must be evaluated at once (not registered),
        False if it was registered."""
        if self.done:
            return True
        self.add(action, args)
        return False

    def run(self):
        """-> the single group of entries that must run; one-time entries are
        gone afterwards.  self.optional: keys of that group that may also
        stay away (removed by the remover action during this run)."""
        self.done = True
        ent = self.reg.entries()
        self.optional = []
        rem = [e for e in ent if e['key'] == ('a', self.remover)]
        tgt = [e for e in ent if e['key'] == ('a', self.target)]
        if rem and tgt:
            if _must_precede(rem[0], tgt[0]):
                ent = [e for e in ent if e is not tgt[0]]   # removed in time
            elif not _must_precede(tgt[0], rem[0]):
                self.optional.append(tgt[0]['key'])
            self.reg.remove(tgt[0]['key'])
            self._chg(self.target)
        for e in ent:
            if e['key'][0] == 'once':
                self.reg.remove(e['key'])
                self._chg(('once', e['key'][2]))
        return [ent]

    def key(self):
        ranks = sorted({v[0] for v in self.reg.items.values()} |
                       {v[1] for v in self.reg.items.values()})
        rk = {c: i for i, c in enumerate(ranks)}
        return [[k[0], k[-1], rk[v[0]], rk[v[1]], v[2]]
                for k, v in self.reg.items.items()] + \
            (['done'] if self.done and self.track_done else [])

    def nontrivial(self):
        return any(n >= 2 for n in self.changes.values())


class ServerActionRef:
    """ServerBoot / ServerQuit / ServerTree: add(server, action), remove,
    remove_server, run(server).  Keys are server labels plus 'all' (run for
    every server) and 'default' (run for the default server)."""

    def __init__(self, default_label):
        self.tick = _Ticker()
        self.regs = {}
        self.default_label = default_label
        self.changes = {}

    def _chg(self, key):
        self.changes[key] = self.changes.get(key, 0) + 1

    def add(self, server, action, args):
        self.regs.setdefault(server, OrderedReg(self.tick)).add(
            action, list(args))
        self._chg((server, action))

    def remove(self, server, action):
        if server in self.regs and self.regs[server].remove(action):
            self._chg((server, action))

    def remove_server(self, server):
        if server in self.regs:
            for a in self.regs[server].items:
                self._chg((server, a))
            del self.regs[server]

    def remove_all(self):
        self.regs = {}

    def run(self, server):
        groups = []
        if server in self.regs:
            groups.append(self.regs[server].entries())
        if server == self.default_label and 'default' in self.regs:
            groups.append(self.regs['default'].entries())
        if 'all' in self.regs:
            groups.append(self.regs['all'].entries())
        return groups

    def key(self):
        allr = sorted({r for g in self.regs.values()
                       for v in g.items.values() for r in v[:2]})
        rk = {c: i for i, c in enumerate(allr)}
        return sorted([s, [[a, rk[v[0]], rk[v[1]], v[2]]
                           for a, v in g.items.items()]]
                      for s, g in self.regs.items() if len(g))

    def nontrivial(self):
        return any(n >= 2 for n in self.changes.values())


class NotificationRef:
    """NotificationCenter: register(obj, msg, listener, action),
    unregister(obj[, msg[, listener]]), notify(obj, msg)."""

    def __init__(self):
        self.tick = _Ticker()
        self.regs = {}          # (obj, msg) -> OrderedReg listener -> action
        self.changes = {}

    def _chg(self, key):
        self.changes[key] = self.changes.get(key, 0) + 1

    def register(self, obj, msg, listener, action, once=False):
        """once: the registration is gone after the first notification."""
        self.regs.setdefault((obj, msg), OrderedReg(self.tick)).add(
            listener, [action, True] if once else action)
        self._chg((obj, msg, listener))

    def clear(self):
        for k, g in self.regs.items():
            for ls in g.items:
                self._chg((k[0], k[1], ls))
        self.regs = {}

    def exists(self, obj, msg=None, listener=None):
        if msg is None:
            return any(k[0] == obj and len(g) for k, g in self.regs.items())
        g = self.regs.get((obj, msg))
        if g is None or not len(g):
            return False
        return listener is None or listener in g

    def unregister(self, obj, msg=None, listener=None):
        for k in list(self.regs):
            if k[0] != obj or (msg is not None and k[1] != msg):
                continue
            g = self.regs[k]
            for ls in list(g.items):
                if listener is None or ls == listener:
                    g.remove(ls)
                    self._chg((k[0], k[1], ls))

    def notify(self, obj, msg):
        g = self.regs.get((obj, msg))
        ent = g.entries() if g is not None else []
        out = []
        for e in ent:
            if isinstance(e['payload'], list):      # one-shot registration
                g.remove(e['key'])
                self._chg((obj, msg, e['key']))
                e = dict(e, payload=e['payload'][0])
            out.append(e)
        return [out]

    def key(self):
        allr = sorted({r for g in self.regs.values()
                       for v in g.items.values() for r in v[:2]})
        rk = {c: i for i, c in enumerate(allr)}
        return sorted([list(k), [[ls, rk[v[0]], rk[v[1]], v[2]]
                                 for ls, v in g.items.items()]]
                      for k, g in self.regs.items() if len(g))

    def nontrivial(self):
        return any(n >= 2 for n in self.changes.values())


def selftest():
    s = SystemActionRef()
    s.add('a0', [0])
    s.add('a1', [1])
    s.do_once('d0', [9])
    g = s.run()
    assert [e['key'][-1] for e in g[0]] == ['a0', 'a1', 'd0']
    keys = [e['key'] for e in g[0]]
    assert check_run(g, keys) is None
    assert check_run(g, keys[:2])[0] == 'missing'
    assert check_run(g, keys + keys[:1])[0] == 'extra'
    assert check_run(g, [keys[1], keys[0], keys[2]])[0] == 'order'
    assert s.defer('a2', [2]) is True and ('a', 'a2') not in s.reg
    g = s.run()
    assert [e['key'][-1] for e in g[0]] == ['a0', 'a1']     # once is gone
    s.add('a0', [0])                     # registered again: place undecided
    g = s.run()
    k0, k1 = ('a', 'a0'), ('a', 'a1')
    assert check_run(g, [k0, k1]) is None and check_run(g, [k1, k0]) is None
    s.remove('a0')
    s.add('a0', [0])                     # removed and added: now after a1
    g = s.run()
    assert check_run(g, [k1, k0]) is None and check_run(g, [k0, k1])
    r = SystemActionRef('r0', 'a1')
    assert r.defer('a1', [1]) is False
    r.add('r0', [0])
    g = r.run()             # the target was there first: it must run
    assert [e['key'][-1] for e in g[0]] == ['a1', 'r0'] and not r.optional
    assert [e['key'][-1] for e in r.run()[0]] == ['r0']
    r.add('a1', [1])
    g = r.run()             # registered after the remover: must stay away
    assert [e['key'][-1] for e in g[0]] == ['r0'] and not r.optional
    assert ('a', 'a1') not in r.reg
    r.add('a1', [1])
    r.add('r0', [0])        # remover registered again: order not demanded
    g = r.run()
    assert [e['key'][-1] for e in g[0]] == ['r0', 'a1']
    assert r.optional == [('a', 'a1')] and ('a', 'a1') not in r.reg
    v = ServerActionRef('s')
    v.add('s', 'a0', [])
    v.add('all', 'a0', [])
    v.add('all', 'a1', [])
    v.add('default', 'a1', [])
    v.add('s2', 'a1', [])
    g = v.run('s')
    assert sorted(e['key'] for x in g for e in x) == ['a0', 'a0', 'a1', 'a1']
    assert check_run(g, ['a0', 'a1', 'a0', 'a1']) is None
    assert check_run(g, ['a0', 'a0', 'a1', 'a1']) is None
    assert check_run(g, ['a1', 'a1', 'a0', 'a0'])[0] == 'order'
    g = v.run('s2')
    assert check_run(g, ['a1', 'a0', 'a1']) is None
    v.remove('all', 'a0')
    v.remove_server('s2')
    assert check_run(v.run('s2'), ['a1']) is None
    assert check_run(v.run('s2'), ['a0', 'a1'])[0] == 'extra'
    n = NotificationRef()
    n.register('o', 'm', 'l0', 'f0')
    n.register('o', 'm', 'l1', 'f1')
    assert [e['key'] for e in n.notify('o', 'm')[0]] == ['l0', 'l1']
    assert n.notify('o', 'n') == [[]] and n.exists('o', 'm', 'l1')
    n.unregister('o', 'm', 'l0')
    assert [e['payload'] for e in n.notify('o', 'm')[0]] == ['f1']
    n.unregister('o')
    assert not n.exists('o') and n.notify('o', 'm') == [[]]
    n.register('o', 'm', 'l0', 'f0', once=True)
    n.register('o', 'm', 'l1', 'f1')
    assert [e['payload'] for e in n.notify('o', 'm')[0]] == ['f0', 'f1']
    assert [e['payload'] for e in n.notify('o', 'm')[0]] == ['f1']
    assert not n.exists('o', 'm', 'l0') and n.exists('o', 'm', 'l1')
    n.clear()
    assert n.notify('o', 'm') == [[]] and not n.exists('o')
    return True


if __name__ == '__main__':
    selftest()
    print('registry_ref selftest ok')
