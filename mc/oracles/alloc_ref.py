"""Reference semantics for C16 (index-range and node-id allocation).

Written from the property statement and the public description of the
SuperCollider client-side allocators; never imports sc3.

* RangeModel   - a partition [lo, hi) of an index space and the set of live
                 ranges inside it.  It does not decide *where* an allocator
                 puts a range (every placement that is inside the partition and
                 disjoint from the live ranges is accepted); it only decides
                 whether an answer is safe and whether "no space" is justified.
* partition()  - the slice of a server-wide index space that belongs to one
                 client: the space behind `first` is divided into `logins`
                 equal slices, client c owns the c-th one, the first
                 `reserved` indices of the slice are never handed out.
* NodeIdModel  - node ids of client `user`: a 26 bit id below a 5 bit client
                 prefix; temporary ids cycle through the window
                 [initial, 2**26 - 1].
"""

NODE_ID_BITS = 26


class RangeModel:
    def __init__(self, lo, hi):
        self.lo = lo
        self.hi = hi
        self.live = {}          # start -> length

    # ---- queries ---------------------------------------------------------
    def inside(self, start, n):
        return self.lo <= start and start + n <= self.hi

    def overlapping(self, start, n):
        """Live ranges [s, s+m) that intersect [start, start+n)."""
        return sorted([s, m] for s, m in self.live.items()
                      if s < start + n and start < s + m)

    def free_runs(self):
        """Maximal runs of indices of the partition not covered by a live
        range, as [start, length]; free neighbours are merged by construction
        (the model has no memory of how the space was cut before)."""
        used = [False] * max(0, self.hi - self.lo)
        for s, m in self.live.items():
            for i in range(s, s + m):
                if self.lo <= i < self.hi:
                    used[i - self.lo] = True
        runs = []
        i = 0
        while i < len(used):
            if used[i]:
                i += 1
                continue
            j = i
            while j < len(used) and not used[j]:
                j += 1
            runs.append([self.lo + i, j - i])
            i = j
        return runs

    def has_free_run(self, n):
        return any(m >= n for _, m in self.free_runs())

    # ---- transitions -----------------------------------------------------
    def judge_alloc(self, n, answer):
        """Classify the answer of alloc(n).  `answer` is None ("no space") or
        the start index.  Returns a list of (problem, expected, observed);
        an acceptable start is recorded as live."""
        if answer is None:
            if self.has_free_run(n):
                return [('none-but-free-run',
                         {'free_runs': self.free_runs(), 'n': n}, None)]
            return []
        if type(answer) is not int:
            return [('bad-value', 'int or None', repr(answer))]
        if not self.inside(answer, n):
            return [('outside-partition', {'partition': [self.lo, self.hi]},
                     [answer, n])]
        ov = self.overlapping(answer, n)
        if ov:
            return [('overlaps-live', {'live': self.listing()},
                     {'range': [answer, n], 'overlaps': ov})]
        self.live[answer] = n
        return []

    def free(self, start):
        """Free the live range that starts at `start`; anything else (an
        address freed before, None) is a double free and changes nothing."""
        if start in self.live:
            del self.live[start]
            return True
        return False

    def listing(self):
        return sorted([s, m] for s, m in self.live.items())


def partition(total, logins, client, first=0, reserved=0):
    """Index range [lo, hi) owned by `client` (0-based) when the indices
    first..total-1 are shared equally by `logins` clients."""
    per = (total - first) // logins
    lo = first + per * client
    return lo + reserved, lo + per


class NodeIdModel:
    def __init__(self, user, initial):
        self.user = user
        self.initial = initial
        self.base = user << NODE_ID_BITS
        self.window = (1 << NODE_ID_BITS) - initial     # ids in the window
        self.recent = []                                # last window-1 ids
        self.count = 0

    def judge(self, x):
        out = []
        if type(x) is not int:
            return [('bad-value', 'int', repr(x))]
        if not (self.base <= x < self.base + (1 << NODE_ID_BITS)):
            out.append(('outside-client-range',
                        [self.base, self.base + (1 << NODE_ID_BITS)], x))
        elif x < self.base + self.initial:
            out.append(('below-initial-id', self.base + self.initial, x))
        if x in self.recent:
            out.append(('duplicate-in-window',
                        {'window': self.window, 'recent': list(self.recent)},
                        x))
        self.recent.append(x)
        keep = self.window - 1
        self.recent = self.recent[-keep:] if keep > 0 else []
        self.count += 1
        return out

    def wrapped(self):
        return self.count > self.window


def selftest():
    m = RangeModel(4, 8)
    assert m.free_runs() == [[4, 4]]
    assert m.judge_alloc(2, 4) == [] and m.judge_alloc(2, 6) == []
    assert not m.has_free_run(1)
    assert m.judge_alloc(1, None) == []                  # justified
    assert m.free(4) and not m.free(4) and not m.free(None)
    assert m.free_runs() == [[4, 2]]
    assert m.judge_alloc(2, None)[0][0] == 'none-but-free-run'
    assert m.judge_alloc(3, None) == []
    assert m.judge_alloc(2, 5)[0][0] == 'overlaps-live'
    assert m.judge_alloc(1, 3)[0][0] == 'outside-partition'
    assert m.judge_alloc(2, 7)[0][0] == 'outside-partition'
    assert m.free(6) and m.free_runs() == [[4, 4]]        # neighbours merged
    assert m.judge_alloc(4, 4) == []
    # partitions: 1024 buffers, 2 logins; audio buses behind 4 i/o channels
    assert partition(1024, 1, 0) == (0, 1024)
    assert partition(1024, 2, 1) == (512, 1024)
    assert partition(1024, 2, 0, first=4) == (4, 514)
    assert partition(1024, 2, 1, first=4) == (514, 1024)
    assert partition(9, 2, 1, reserved=1) == (5, 8)
    # node ids
    n = NodeIdModel(1, (1 << 26) - 3)
    a = (1 << 26) | ((1 << 26) - 3)
    assert n.window == 3
    assert [n.judge(a + i) for i in (0, 1, 2, 0, 1)] == [[]] * 5
    assert n.wrapped()
    assert n.judge(a)[0][0] == 'duplicate-in-window'
    assert NodeIdModel(1, 1000).judge(1000)[0][0] == 'outside-client-range'
    assert NodeIdModel(1, 1000).judge(1 << 26)[0][0] == 'below-initial-id'
    assert NodeIdModel(0, 1000).judge(1 << 26)[0][0] == 'outside-client-range'
    assert NodeIdModel(31, 1000).judge((31 << 26) + 1000) == []
