"""Reference models for the consumers of the library's time-ordered queue
(C09): plain insertion-ordered lists, written from the property statement.
No import of sc3 here.

* ListQueue      - list of [prio, seq, item]; the order of exit is (prio, seq)
* ppar_expected  - parallel pattern streams
* exit_expected  - exit actions drained at shutdown
* clockq_expected - clock tasks (one list of (clock, task) schedulings)
"""


class ListQueue:
    def __init__(self):
        self.items = []
        self.seq = 0

    def add(self, prio, item):
        self.items = [e for e in self.items if e[2] != item]
        self.items.append([prio, self.seq, item])
        self.seq += 1

    def remove(self, item):
        self.items = [e for e in self.items if e[2] != item]

    def sorted(self):
        return sorted(self.items, key=lambda e: (e[0], e[1]))

    def pop(self):
        e = self.sorted()[0]
        self.items.remove(e)
        return e[0], e[2]

    def peek(self):
        e = self.sorted()[0]
        return e[0], e[2]

    def empty(self):
        return not self.items


# ---------------------------------------------------------------------------
# parallel pattern streams
# ---------------------------------------------------------------------------

def _leaf_stream(tag, durs):
    for d in durs:
        yield [tag, float(d)]


def _par_stream(children):
    """Events [tag | None, delta] of children played in parallel: every child
    is queued at time 0 in the order given; the earliest (first queued among
    equals) child speaks next and is re-queued at now + the delta of what it
    said, as the most recent entry; a child that has ended is dropped."""
    q = ListQueue()
    for i, ch in enumerate(children):
        q.add(0.0, i)
    now = 0.0
    while not q.empty():
        _, i = q.pop()
        try:
            tag, delta = next(children[i])
        except StopIteration:
            if not q.empty():
                nxt = q.peek()[0]
                yield [None, nxt - now]
                now = nxt
            continue
        q.add(now + float(delta), i)
        nxt = q.peek()[0]
        yield [tag, nxt - now]
        now = nxt


def _node_stream(node):
    if node[0] == 'seq':
        return _leaf_stream(node[1], node[2])
    if node[0] == 'par':
        return _par_stream([_node_stream(c) for c in node[1]])
    raise ValueError(node)


def ppar_expected(node):
    """-> list of [tag, start time] of the tagged events, in order."""
    out = []
    now = 0.0
    for tag, delta in _node_stream(node):
        if tag is not None:
            out.append([tag, now])
        now += delta
    return out


# ---------------------------------------------------------------------------
# exit actions
# ---------------------------------------------------------------------------

def exit_expected(history, effects, pre=()):
    """history: [['add', prio, k] | ['remove', k]]; effects: {k: None |
    ['remove', j] | ['add', prio, j]} executed when action k runs; pre: entries
    [prio, name] already queued.  -> names in the order they run."""
    q = ListQueue()
    for p, n in pre:
        q.add(p, n)
    for op in history:
        if op[0] == 'add':
            q.add(op[1], op[2])
        else:
            q.remove(op[1])
    out = []
    while not q.empty():
        _, k = q.pop()
        out.append(k)
        eff = effects.get(str(k)) if isinstance(effects, dict) else None
        if eff:
            if eff[0] == 'remove':
                q.remove(eff[1])
            else:
                q.add(eff[1], eff[2])
    return out


# ---------------------------------------------------------------------------
# clock tasks
# ---------------------------------------------------------------------------

def clockq_expected(prog, mode='nrt'):
    """List model of pending (clock, task) schedulings ordered by (time in
    seconds, scheduling order).  Scheduling a pending (clock, task) again
    moves it to its new time as the most recent entry.  A tempo clock keeps
    its entries in beats: changing its tempo / beats moves them in seconds
    and keeps their order among themselves.

    -> (awakenings [[task, seconds, clock]], flags, stats)
    stats: how many pending entries were moved by a re-insertion, how many
    insertions met an equal time, how many entries a clear/reset removed.
    flags (situations the statement does not decide; the caller skips them):
      'past'     an entry was scheduled before the present
      'crosstie' after a tempo/beats change an entry of that clock ties with
                 an entry of another clock
    An entry that is due at the very instant at which an earlier entry of
    that instant runs is still pending: re-scheduling it moves it, clearing
    the clock cancels it - on every clock, the app clock (which collects what
    is due in one tick before awakening it) included.
    """
    flags = set()
    cst = {}
    kind = {}
    for cid, spec in prog['clocks'].items():
        kind[cid] = spec[0]
        cst[cid] = {'tempo': float(spec[1]) if spec[0] == 'tempo' else 1.0,
                    'bb': 0.0, 'bs': 0.0}

    def b2s(c, b):
        s = cst[c]
        return (b - s['bb']) * (1.0 / s['tempo']) + s['bs']

    def s2b(c, t):
        s = cst[c]
        return (t - s['bs']) * s['tempo'] + s['bb']

    pend = []          # [time, seq, clock, task, beats]
    stats = {'moved': 0, 'ties': 0, 'cleared': 0}
    seq = [0]
    now = [0.0]
    out = []
    funcs = prog.get('funcs', {})
    routines = prog.get('routines', {})
    calls = {f: 0 for f in funcs}
    pc = {r: 0 for r in routines}
    done = {r: False for r in routines}

    def add(c, task, beats):
        n = len(pend)
        pend[:] = [e for e in pend if not (e[2] == c and e[3] == task)]
        stats['moved'] += n - len(pend)
        t = b2s(c, beats)
        if any(e[0] == t for e in pend):
            stats['ties'] += 1
        if t < now[0]:
            flags.add('past')
        pend.append([t, seq[0], c, task, beats])
        seq[0] += 1

    def retime(c):
        mine = sorted((e for e in pend if e[2] == c),
                      key=lambda e: (e[0], e[1]))
        for e in mine:
            add(c, e[3], e[4])
        for e in pend:
            if e[2] == c and any(o[2] != c and o[0] == e[0] for o in pend):
                flags.add('crosstie')

    def do(st, who_clock):
        op = st[0]
        if op == 'sched':
            _, c, d, tg = st
            add(c, tg, s2b(c, now[0]) + d)
        elif op == 'sched_abs':
            _, c, b, tg = st
            add(c, tg, b)
        elif op == 'play':
            c = st[2]
            add(c, st[1], s2b(c, now[0]))
        elif op in ('tempo', 'etempo'):
            # (etempo: "at the present elapsed time", which in a clock task
            # is the task's own time)
            _, c, v = st
            b = s2b(c, now[0])
            cst[c].update(bs=b2s(c, b), bb=b)
            cst[c]['tempo'] = float(v)
            retime(c)
        elif op == 'beats':
            _, c, v = st
            cst[c].update(bs=now[0], bb=float(v))
            retime(c)
        elif op == 'clear':
            n = len(pend)
            pend[:] = [e for e in pend if e[2] != st[1]]
            stats['cleared'] += n - len(pend)
        elif op == 'mainreset':
            stats['cleared'] += len(pend)
            del pend[:]
        else:
            raise ValueError(st)

    for op in prog['actors']['main']:
        do(op, None)
    while pend:
        pend.sort(key=lambda e: (e[0], e[1]))
        t, _, c, task, _b = pend.pop(0)
        now[0] = t
        if task in routines:
            if done[task]:
                continue     # awakening a finished routine shows nothing
            out.append([task, t, c])
            body = routines[task]
            while True:
                if pc[task] >= len(body):
                    done[task] = True
                    break
                st = body[pc[task]]
                pc[task] += 1
                if st[0] == 'yield':
                    add(c, task, s2b(c, t) + st[1])
                    break
                do(st, c)
        else:
            out.append([task, t, c])
            rets = funcs[task].get('returns', [None])
            n = calls[task]
            calls[task] += 1
            r = rets[n] if n < len(rets) else None
            if r is not None:
                add(c, task, s2b(c, t) + r)
    return out, flags, stats


# ---------------------------------------------------------------------------
# the app clock's scheduler driven directly
# ---------------------------------------------------------------------------

def scheduler_expected(case):
    """case: {'init': [[task, time], ...] (insertion order), 'actions':
    {task: [op, ...]} run when the task is awakened (op = ['sched', d, tg] |
    ['sched_abs', t, tg] | ['clear']), 'returns': {task: [delta | None, ...]}}
    -> [[task, time], ...] in the order of awakening when everything is
    drained: (time, insertion order); a re-inserted pending entry is moved,
    a cleared one never comes out."""
    q = ListQueue()
    for task, t in case['init']:
        q.add(float(t), task)
    calls = {}
    out = []
    while not q.empty():
        t, task = q.pop()
        out.append([task, t])
        n = calls.get(task, 0)
        calls[task] = n + 1
        if n == 0:
            for op in case['actions'].get(task, []):
                if op[0] == 'sched':
                    q.add(t + op[1], op[2])
                elif op[0] == 'sched_abs':
                    q.add(float(op[1]), op[2])
                else:
                    q.items = []
        rets = case['returns'].get(task, [])
        r = rets[n] if n < len(rets) else None
        if r is not None:
            q.add(t + r, task)
    return out
