"""Reference dispatcher for incoming OSC messages (property C18) - a boring
model written from the property statement, never imports sc3.

A responder is (path, matching?, src, recv_port, arg template) plus a life
cycle: enabled -> disabled -> enabled ..., freed (by free() or by CmdPeriod),
spent (a one-shot that fired).  An incoming message (address, args, sender,
receive port) must invoke exactly the *enabled* responders

* whose path equals the address, or - matching responders - whose path is
  matched over its whole length by the address read as an OSC 1.0 pattern
  (mc.oracles.oscpattern),
* whose src (host, port|None) equals the sender,
* whose recv_port (if any) equals the port the message arrived on,
* whose argument template accepts the arguments by position (None = any; a
  position the message does not have is not accepted; a template that is not
  a list stands for the one-element list; an item {'pred': name} stands for
  the user function PREDS[name], which accepts an argument iff it returns
  True for it),

each once, with [address, *args], the time, the sender and the port.

Order: "registration order" is demanded between two responders of the same
dispatcher (exact / matching) when they are ordered the same way by creation
*and* by their latest enable() - after a disable/enable cycle the statement
does not say which of the two counts, so such pairs are unconstrained.  The
relative order of an exact and a matching responder is unconstrained.

Callbacks that act on the registry: a responder's function may free or disable
*another* responder while the message is being dispatched ("kills").  The
statement says disabled and freed responders are never invoked, so the target
must not fire if the killer is demanded to run before it, must fire if it is
demanded to run before the killer, and is *optional* when their relative
order is unconstrained (`Model.last_optional`; callers then also stop
extending the history, because the resulting state is not decided).

CmdPeriod actions that act on responders (`Model.add_cp_action`): CmdPeriod
runs "exactly the actions currently registered, in registration order", and a
non-permanent enabled responder is freed by an action of that registry which
was registered when the responder was created / last enabled / last declared
non-permanent (`Responder.hook`).  A user action registered *before* that
moment runs first: if it declares the responder permanent (or frees /
disables it) the responder's own action is no longer registered when its turn
comes, so a responder made permanent in time persists and keeps firing.  A
user action registered *after* that moment finds the responder freed; what
declaring a freed responder permanent means is not decided (`Model.undecided`).

Several responders may have been given the same function object (`shared`);
that does not change anything in what has to happen.
"""

from mc.oracles import oscpattern


def _num(x):
    return isinstance(x, (int, float)) and not isinstance(x, bool)


# user functions that may stand in an argument template (test inputs, total
# on every argument value, return a bool)
PREDS = {
    'odd': lambda x: _num(x) and x % 2 == 1,
    'pos': lambda x: _num(x) and x > 0,
    'never': lambda x: False,
}


class Responder:
    def __init__(self, rid, path, matching, src, recv_port, tmpl, rank):
        self.rid = rid
        self.path = path
        self.matching = bool(matching)
        self.src = src              # None | [host, port|None]
        self.recv_port = recv_port  # None | int
        self.tmpl = tmpl            # None | list
        self.state = 'enabled'      # enabled | disabled | freed | spent
        self.oneshot = False
        self.ver = 0
        self.created = rank
        self.enabled_at = rank
        self.changes = 1            # life-cycle changes (creation = 1)
        self.shared = False         # still has the function object it shares
        self.kills = None           # None | [rid of the target, 'free'|'disable']
        self.permanent = False      # persists beyond CmdPeriod
        self.perm_declared = None   # state in which it was declared permanent
        self.survived = 0           # CmdPeriods it had to survive
        self.survived_dd = False    # ... one of them after having been
        #                             declared permanent while disabled
        self.hook = rank            # rank of its CmdPeriod registration | None


class Model:
    def __init__(self):
        self.rs = []
        self.clock = 0
        self.last_killed = []
        self.last_optional = []
        self.cp_actions = []        # [{'k', 'how', 'j', 'rank'}]
        self.undecided = False

    def _tick(self):
        self.clock += 1
        return self.clock

    # ---- life cycle ---------------------------------------------------------
    def create(self, path, matching, src, recv_port, tmpl, shared=False):
        if not path.startswith('/'):
            path = '/' + path
        r = Responder(len(self.rs), path, matching, src, recv_port, tmpl,
                      self._tick())
        r.shared = bool(shared)
        self.rs.append(r)
        return r

    def enable(self, i):
        r = self.rs[i]
        if r.state == 'disabled':
            r.state = 'enabled'
            r.enabled_at = self._tick()
            r.hook = None if r.permanent else r.enabled_at
            r.changes += 1

    def disable(self, i):
        r = self.rs[i]
        if r.state == 'enabled':
            r.state = 'disabled'
            r.hook = None
            r.changes += 1

    def free(self, i):
        r = self.rs[i]
        if r.state in ('enabled', 'disabled'):
            r.state = 'freed'
            r.hook = None
            r.changes += 1

    def one_shot(self, i):
        self.rs[i].oneshot = True

    def replace_func(self, i):
        r = self.rs[i]
        r.ver = 1 - r.ver
        r.shared = False
        r.kills = None

    def set_killer(self, i, j, how):
        """Responder i gets a new function that frees / disables j."""
        self.replace_func(i)
        self.rs[i].kills = [j, how]

    @staticmethod
    def must_precede(x, y):
        return x.matching == y.matching and x.created < y.created and \
            x.enabled_at < y.enabled_at

    def set_permanent(self, i, value):
        """A permanent responder persists beyond CmdPeriod, whether it was
        enabled or disabled when it was declared permanent."""
        r = self.rs[i]
        if r.state == 'enabled' and bool(value) != r.permanent:
            r.hook = None if value else self._tick()
        r.permanent = bool(value)
        r.perm_declared = r.state if value else None
        if not value:
            r.survived = 0

    def add_cp_action(self, k, how, j):
        """Registers in CmdPeriod a user action that, whenever it runs,
        declares responder j permanent / frees it / disables it (nothing if
        that responder does not exist yet)."""
        self.cp_actions.append({'k': k, 'how': how, 'j': j,
                                'rank': self._tick()})

    def cmd_period(self):
        """Responders do not persist beyond CmdPeriod unless they are
        permanent.  What becomes of a
        responder that was disabled at that moment is not decided by the
        statement; the model retires it (no further operations are offered)
        and it must simply stay silent, as any disabled responder."""
        self.undecided = False
        events = [(a['rank'], 'act', a) for a in self.cp_actions] + \
                 [(r.hook, 'hook', r) for r in self.rs if r.hook is not None]
        events.sort(key=lambda e: e[0])
        freed_now = set()
        for _, typ, x in events:
            if typ == 'hook':
                if x.hook is None:
                    continue    # no longer registered when its turn comes
                x.state = 'freed'
                x.hook = None
                x.changes += 1
                freed_now.add(x.rid)
                continue
            if x['j'] >= len(self.rs):
                continue
            if x['how'] == 'permanent':
                if x['j'] in freed_now:
                    self.undecided = True
                elif self.live(x['j']) and not self.rs[x['j']].permanent:
                    self.set_permanent(x['j'], True)
            elif x['how'] == 'free':
                self.free(x['j'])
            else:
                self.disable(x['j'])
        for r in self.rs:
            if r.permanent:
                if r.state in ('enabled', 'disabled'):
                    r.survived += 1
                    if r.perm_declared == 'disabled':
                        r.survived_dd = True
                continue
            if r.state in ('enabled', 'disabled'):
                r.state = 'freed'
                r.hook = None
                r.changes += 1

    def live(self, i):
        return self.rs[i].state in ('enabled', 'disabled')

    # ---- dispatch -----------------------------------------------------------
    @staticmethod
    def path_accepts(r, address):
        if r.matching:
            return oscpattern.match(address, r.path)    # may raise Ambiguous
        return r.path == address

    @staticmethod
    def filters_accept(r, args, sender, port):
        if r.src is not None:
            if r.src[0] != sender[0]:
                return False
            if r.src[1] is not None and r.src[1] != sender[1]:
                return False
        if r.recv_port is not None and r.recv_port != port:
            return False
        if r.tmpl is not None:
            tmpl = r.tmpl if isinstance(r.tmpl, list) else [r.tmpl]
            for i, item in enumerate(tmpl):
                if item is None:
                    continue
                if i >= len(args):
                    return False
                if isinstance(item, dict):
                    if PREDS[item['pred']](args[i]) is not True:
                        return False
                elif args[i] != item:
                    return False
        return True

    def deliver(self, address, args, sender, port):
        """-> list of dicts {rid, ver, group, created, enabled_at} of the
        responders that must fire (in creation order); marks one-shots spent.
        Raises oscpattern.Ambiguous when the address is a pattern whose
        meaning the OSC specification does not decide."""
        cand = []
        for r in self.rs:
            if r.state != 'enabled':
                continue
            if not self.path_accepts(r, address):
                continue
            if not self.filters_accept(r, list(args), sender, port):
                continue
            cand.append(r)
        self.last_killed = []       # candidates removed before their turn
        self.last_optional = []     # candidates that may or may not fire
        killers = [r for r in cand if r.kills is not None and
                   r.kills[0] != r.rid]
        for k in killers:           # (callers offer at most one killer)
            t = self.rs[k.kills[0]]
            if t in cand and t.rid not in self.last_killed:
                if self.must_precede(k, t):
                    self.last_killed.append(t.rid)
                elif not self.must_precede(t, k):
                    self.last_optional.append(t.rid)
        fired = []
        for r in cand:
            if r.rid in self.last_killed:
                continue
            fired.append({'rid': r.rid, 'ver': r.ver,
                          'group': 'matching' if r.matching else 'exact',
                          'created': r.created, 'enabled_at': r.enabled_at,
                          'optional': r.rid in self.last_optional,
                          'shared': r.shared})
        for f in fired:
            r = self.rs[f['rid']]
            if r.oneshot:
                r.state = 'spent'
                r.hook = None
                r.changes += 1
        for k in killers:
            j, how = k.kills
            if how == 'free':
                self.free(j)
            else:
                self.disable(j)
        return fired

    # ---- bookkeeping -----------------------------------------------------------
    def key(self):
        """Canonical state: ranks renormalised."""
        ranks = sorted({r.created for r in self.rs} |
                       {r.enabled_at for r in self.rs})
        rk = {c: i for i, c in enumerate(ranks)}
        return [[r.path, r.matching, r.src, r.recv_port, r.tmpl, r.state,
                 r.oneshot, r.ver, rk[r.created], rk[r.enabled_at]] +
                ([['shared', r.shared], ['kills', r.kills]]
                 if r.shared or r.kills else []) +
                ([['permanent', r.perm_declared, min(r.survived, 1)]]
                 if r.permanent else []) +
                (['survived-declared-while-disabled'] if r.survived_dd
                 else [])
                for r in self.rs] + \
            [['cp-action', a['k'], a['how'], a['j'],
              [r.rid for r in self.rs
               if r.hook is not None and r.hook < a['rank']]]
             for a in self.cp_actions]

    def nontrivial(self):
        return any(r.changes >= 2 for r in self.rs)


def check_order(fired, observed_ids):
    """fired: expected entries (dicts with rid, group, created, enabled_at);
    observed_ids: rids in the order they were invoked (each expected once -
    multiplicity is checked by the caller).  -> list of (x, y) pairs that were
    demanded in the order x, y but observed y, x."""
    pos = {}
    for p, rid in enumerate(observed_ids):
        pos.setdefault(rid, p)
    bad = []
    for x in fired:
        for y in fired:
            if x['group'] != y['group'] or x['rid'] == y['rid']:
                continue
            if x['created'] < y['created'] and \
                    x['enabled_at'] < y['enabled_at']:
                if x['rid'] in pos and y['rid'] in pos and \
                        pos[x['rid']] > pos[y['rid']]:
                    bad.append((x['rid'], y['rid']))
    return bad


def selftest():
    A, B = ['127.0.0.1', 57200], ['127.0.0.1', 57201]
    m = Model()
    m.create('/a', False, None, None, None)         # 0
    m.create('/ab', True, None, None, None)         # 1
    m.create('/a', True, A, None, None)             # 2
    m.create('/a', False, None, None, [1])          # 3
    m.create('/a/b', True, None, 57121, None)       # 4

    def ids(addr, args, snd, port=57120):
        return [f['rid'] for f in m.deliver(addr, args, snd, port)]
    assert ids('/a', [1], A) == [0, 2, 3]
    assert ids('/a', [1], B) == [0, 3]              # src filter
    assert ids('/a', [2], A) == [0, 2]              # template
    assert ids('/a', [], A) == [0, 2]               # missing position
    assert ids('/ab', [2], B) == [1]
    assert ids('/a*', [1], A) == [1, 2]             # exact ones need equality
    assert ids('/?b', [1], A) == [1]
    assert ids('/{a,ab}', [1], A) == [1, 2]
    assert ids('/*/*', [1], A) == []                # recv_port filter
    assert ids('/*/*', [1], A, 57121) == [4]
    assert ids('/a[', [1], A) == []                 # ill-formed: nothing
    m.disable(0)
    assert ids('/a', [1], A) == [2, 3]
    m.enable(0)
    f = m.deliver('/a', [1], A, 57120)
    assert [x['rid'] for x in f] == [0, 2, 3]
    # 0 was created before 3 but re-enabled after it: unconstrained pair
    assert check_order(f, [3, 0, 2]) == [] and check_order(f, [0, 3]) == []
    m.create('/a', False, None, None, None)         # 5
    f = m.deliver('/a', [1], A, 57120)
    assert check_order(f, [5, 0, 2, 3]) == [(0, 5), (3, 5)]
    m.one_shot(3)
    assert ids('/a', [1], A) == [0, 2, 3, 5] and m.rs[3].state == 'spent'
    assert ids('/a', [1], A) == [0, 2, 5]
    m.free(2)
    m.cmd_period()
    assert ids('/a', [1], A) == [] and not m.live(0)
    # templates: scalar, wildcard, user function, falsy value
    t = Model()
    t.create('/a', False, None, None, 1)                        # 0
    t.create('/a', False, None, None, [None, 2])                # 1
    t.create('/a', False, None, None, [{'pred': 'odd'}])        # 2
    t.create('/a', False, None, None, [0])                      # 3
    t.create('/a', False, ['127.0.0.2', None], None, [])        # 4

    def tids(args, snd=A):
        return [f['rid'] for f in t.deliver('/a', args, snd, 57120)]
    assert tids([1]) == [0, 2] and tids([1, 2]) == [0, 1, 2]
    assert tids([0]) == [3] and tids([0, 2]) == [1, 3] and tids([]) == []
    assert tids(['x']) == [] and tids([3, 2]) == [1, 2]
    assert tids([7], ['127.0.0.2', 57200]) == [2, 4]
    # permanent responders persist beyond CmdPeriod
    t.set_permanent(2, True)
    t.cmd_period()
    assert tids([1]) == [2] and t.live(2) and not t.live(0)
    t.set_permanent(2, False)
    t.cmd_period()
    assert tids([1]) == []
    # CmdPeriod actions that act on responders
    c = Model()
    c.add_cp_action(0, 'permanent', 0)
    c.create('/a', False, None, None, None)                     # 0: after it
    c.create('/a', False, None, None, None)                     # 1: control
    c.cmd_period()
    assert c.rs[0].state == 'enabled' and c.rs[0].permanent and \
        c.rs[0].survived == 1 and c.rs[1].state == 'freed' and \
        not c.undecided
    c = Model()
    c.create('/a', False, None, None, None)                     # 0: before it
    c.add_cp_action(0, 'permanent', 0)
    c.cmd_period()
    assert c.rs[0].state == 'freed' and c.undecided
    c = Model()
    c.create('/a', False, None, None, None)
    c.add_cp_action(0, 'permanent', 0)
    c.disable(0)
    c.enable(0)             # registered again: now after the action
    c.cmd_period()
    assert c.rs[0].state == 'enabled' and not c.undecided
    c.set_permanent(0, False)
    c.cmd_period()          # the action runs first again
    assert c.rs[0].state == 'enabled' and c.rs[0].permanent
    # a callback that frees / disables another responder
    k = Model()
    for _ in range(3):
        k.create('/a', False, None, None, None, shared=True)    # 0 1 2
    k.create('/a', True, None, None, None)                      # 3
    k.set_killer(1, 2, 'disable')
    f = k.deliver('/a', [1], A, 57120)
    assert [x['rid'] for x in f] == [0, 1, 3] and k.last_killed == [2]
    assert k.rs[2].state == 'disabled' and not k.rs[1].shared
    k.enable(2)
    k.set_killer(1, 0, 'free')          # the target runs before the killer
    f = k.deliver('/a', [1], A, 57120)
    assert [x['rid'] for x in f] == [0, 1, 2, 3] and k.last_killed == []
    assert k.rs[0].state == 'freed' and k.last_optional == []
    k.set_killer(1, 3, 'free')          # other dispatcher: order undecided
    f = k.deliver('/a', [1], A, 57120)
    assert [[x['rid'], x['optional']] for x in f] == \
        [[1, False], [2, False], [3, True]] and k.last_optional == [3]
    return True


if __name__ == '__main__':
    selftest()
    print('dispatch_ref selftest ok')
