"""Strict reader for the SuperCollider synth definition file format, version 2
(written from the "Synth Definition File Format" reference; never imports sc3).

decode(buf) -> {'version': 2, 'defs': [def]}; a def is
  {'name', 'constants': [float], 'params': [float], 'param_names': [(name, index)],
   'units': [{'name', 'rate', 'special', 'inputs': [('c', const_index) | ('u', unit, output)],
              'outputs': [rate]}], 'variants': [(name, [float])]}
The whole buffer must be consumed; every structural inconsistency raises
FormatError.  `validate(def)` checks reference integrity (topological order,
index ranges)."""

import struct


class FormatError(Exception):
    pass


class _R:
    def __init__(self, buf):
        self.b = bytes(buf)
        self.p = 0

    def take(self, n):
        if n < 0 or self.p + n > len(self.b):
            raise FormatError(f'truncated: need {n} bytes at {self.p}, '
                              f'have {len(self.b) - self.p}')
        r = self.b[self.p:self.p + n]
        self.p += n
        return r

    def i8(self):
        return struct.unpack('>b', self.take(1))[0]

    def u8(self):
        return self.take(1)[0]

    def i16(self):
        return struct.unpack('>h', self.take(2))[0]

    def i32(self):
        return struct.unpack('>i', self.take(4))[0]

    def f32(self):
        return struct.unpack('>f', self.take(4))[0]

    def pstr(self):
        n = self.u8()
        raw = self.take(n)
        try:
            return raw.decode('ascii')
        except UnicodeDecodeError:
            raise FormatError(f'non-ASCII pascal string {raw!r}')

    def count(self, what):
        n = self.i32()
        if n < 0:
            raise FormatError(f'negative {what} count {n}')
        return n


def decode(buf):
    r = _R(buf)
    if r.take(4) != b'SCgf':
        raise FormatError('bad magic')
    ver = r.i32()
    if ver != 2:
        raise FormatError(f'version {ver} != 2')
    ndefs = r.i16()
    if ndefs < 0:
        raise FormatError('negative def count')
    defs = [_read_def(r) for _ in range(ndefs)]
    if r.p != len(r.b):
        raise FormatError(f'{len(r.b) - r.p} trailing bytes')
    return {'version': ver, 'defs': defs}


def _read_def(r):
    d = {'name': r.pstr()}
    d['constants'] = [r.f32() for _ in range(r.count('constant'))]
    d['params'] = [r.f32() for _ in range(r.count('parameter'))]
    names = []
    for _ in range(r.count('parameter name')):
        n = r.pstr()
        names.append((n, r.i32()))
    d['param_names'] = names
    units = []
    for _ in range(r.count('unit')):
        u = {'name': r.pstr(), 'rate': r.i8()}
        ni = r.count('input')
        no = r.count('output')
        u['special'] = r.i16()
        ins = []
        for _ in range(ni):
            a, b = r.i32(), r.i32()
            ins.append(('c', b) if a == -1 else ('u', a, b))
        u['inputs'] = ins
        u['outputs'] = [r.i8() for _ in range(no)]
        units.append(u)
    d['units'] = units
    nv = r.i16()
    if nv < 0:
        raise FormatError('negative variant count')
    d['variants'] = [(r.pstr(), [r.f32() for _ in d['params']])
                     for _ in range(nv)]
    return d


def validate(d):
    """Reference integrity of one decoded definition; returns a list of
    problems (empty = well-formed)."""
    bad = []
    nk = len(d['constants'])
    np_ = len(d['params'])
    for name, idx in d['param_names']:
        if not 0 <= idx < np_:
            bad.append(f'param name {name!r} index {idx} outside 0..{np_ - 1}')
        if not name:
            bad.append('empty parameter name')
    seen = set()
    for name, _ in d['param_names']:
        if name in seen:
            bad.append(f'duplicate parameter name {name!r}')
        seen.add(name)
    for i, u in enumerate(d['units']):
        if u['rate'] not in (0, 1, 2, 3):
            bad.append(f'unit {i} {u["name"]}: rate {u["rate"]}')
        if not u['name']:
            bad.append(f'unit {i}: empty class name')
        for j, inp in enumerate(u['inputs']):
            if inp[0] == 'c':
                if not 0 <= inp[1] < nk:
                    bad.append(f'unit {i} {u["name"]} input {j}: constant '
                               f'{inp[1]} outside 0..{nk - 1}')
            else:
                _, src, out = inp
                if not 0 <= src < i:
                    bad.append(f'unit {i} {u["name"]} input {j}: refers to '
                               f'unit {src}, not strictly earlier')
                elif not 0 <= out < len(d['units'][src]['outputs']):
                    bad.append(f'unit {i} {u["name"]} input {j}: output {out}'
                               f' of unit {src} '
                               f'({d["units"][src]["name"]}) does not exist')
        for o in u['outputs']:
            if o not in (0, 1, 2, 3):
                bad.append(f'unit {i} {u["name"]}: output rate {o}')
    for name, vals in d['variants']:
        if len(vals) != np_:
            bad.append(f'variant {name!r}: {len(vals)} values for {np_} '
                       'parameters')
    if len(set(d['constants'])) != nk and \
            not any(c != c for c in d['constants']):
        bad.append('duplicate constants')
    return bad


def encode(d):
    """Minimal writer (for self-tests and fault enumeration bases)."""
    out = bytearray(b'SCgf')
    out += struct.pack('>ih', 2, 1)

    def ps(s):
        b = s.encode('ascii')
        return bytes([len(b)]) + b
    out += ps(d['name'])
    out += struct.pack('>i', len(d['constants']))
    for c in d['constants']:
        out += struct.pack('>f', c)
    out += struct.pack('>i', len(d['params']))
    for c in d['params']:
        out += struct.pack('>f', c)
    out += struct.pack('>i', len(d['param_names']))
    for n, i in d['param_names']:
        out += ps(n) + struct.pack('>i', i)
    out += struct.pack('>i', len(d['units']))
    for u in d['units']:
        out += ps(u['name']) + struct.pack('>b', u['rate'])
        out += struct.pack('>iih', len(u['inputs']), len(u['outputs']),
                           u['special'])
        for inp in u['inputs']:
            if inp[0] == 'c':
                out += struct.pack('>ii', -1, inp[1])
            else:
                out += struct.pack('>ii', inp[1], inp[2])
        for o in u['outputs']:
            out += struct.pack('>b', o)
    out += struct.pack('>h', len(d['variants']))
    for n, vals in d['variants']:
        out += ps(n)
        for v in vals:
            out += struct.pack('>f', v)
    return bytes(out)


def selftest():
    d = {'name': 'sine', 'constants': [440.0, 0.0], 'params': [0.5],
         'param_names': [('amp', 0)],
         'units': [
             {'name': 'Control', 'rate': 1, 'special': 0, 'inputs': [],
              'outputs': [1]},
             {'name': 'SinOsc', 'rate': 2, 'special': 0,
              'inputs': [('c', 0), ('c', 1)], 'outputs': [2]},
             {'name': 'BinaryOpUGen', 'rate': 2, 'special': 2,
              'inputs': [('u', 1, 0), ('u', 0, 0)], 'outputs': [2]},
             {'name': 'Out', 'rate': 2, 'special': 0,
              'inputs': [('c', 1), ('u', 2, 0)], 'outputs': []}],
         'variants': [('sine.v', [0.25])]}
    b = encode(d)
    back = decode(b)['defs'][0]
    assert back == d, back
    assert validate(back) == []
    for cut in range(len(b)):
        try:
            decode(b[:cut])
        except FormatError:
            pass
        else:
            raise AssertionError(f'truncation at {cut} accepted')
    try:
        decode(b + b'\0')
    except FormatError:
        pass
    else:
        raise AssertionError('trailing byte accepted')
    d2 = dict(d, units=[d['units'][1], d['units'][0]] + d['units'][2:])
    d2['units'][2] = dict(d2['units'][2], inputs=[('u', 2, 0), ('u', 0, 0)])
    assert validate(d2), 'forward reference not detected'
