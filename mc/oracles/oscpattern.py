"""OSC 1.0 address pattern matching, written from the OSC 1.0 specification
("OSC Message Dispatching and Pattern Matching") - never imports sc3.

The specification:

* an OSC Address and an OSC Address Pattern are split into *parts* at '/';
  the pattern matches the address iff both have the same number of parts and
  every pattern part matches the corresponding address part *completely*;
* inside a part: '?' matches any single character; '*' matches any sequence
  of zero or more characters; '[string]' matches any one character of the
  string, where 'x-y' is the ASCII range x..y (a minus sign at the end of the
  string is literal) and a leading '!' negates the list (a '!' anywhere else
  is literal); '{foo,bar}' matches any of the comma separated strings; any
  other character matches only itself.

Three classes of pattern text (`classify`):

'ok'         the specification decides the answer for every valid address;
'ill'        unterminated '[' or '{': the text is not a pattern.  Every reading
             (reject it, or take the bracket literally - '[' and '{' cannot
             occur in an address) gives "matches nothing";
'ambiguous'  the specification does not decide, or implementations are known
             to differ: empty parts ('//', trailing '/', which OSC 1.1 turns
             into a multi-level wildcard), '/' inside brackets or braces,
             empty bracket/brace bodies or empty alternatives, a '-' at the
             start of a bracket body or after a completed range, descending
             ranges, and pattern specials ([ ] { } * ?) inside brackets or
             braces.  `match` raises Ambiguous for these; callers accept any
             answer.

A stray ']' , '}' or ',' outside brackets/braces is taken as an ordinary
character (rule "any other character matches only the same character"); as
those characters are illegal in addresses such a pattern matches no valid
address, which is also what rejecting it would give, so it is classed 'ok'.

Valid addresses (`valid_address`): start with '/', no empty part, none of the
characters the specification forbids in names (space # * , / ? [ ] { }).
"""

FORBIDDEN_IN_NAME = frozenset(' #*,/?[]{}')


class PatternError(ValueError):
    """The text is not an OSC address pattern (class 'ill')."""


class Ambiguous(ValueError):
    """The specification does not decide what this pattern means."""


def valid_address(address):
    if not isinstance(address, str) or not address.startswith('/'):
        return False
    parts = address[1:].split('/')
    return all(p and not (set(p) & FORBIDDEN_IN_NAME) for p in parts)


def _bracket(body):
    """body of '[...]' without the brackets -> (negated, frozenset)."""
    neg = body.startswith('!')
    if neg:
        body = body[1:]
    if not body:
        raise Ambiguous('empty bracket body')
    if set(body) & set('[{}*?'):
        raise Ambiguous('pattern special inside brackets')
    chars = set()
    i, n = 0, len(body)
    while i < n:
        c = body[i]
        if c == '-':
            if i == n - 1 and i > 0:
                chars.add('-')          # "a minus sign at the end ... literal"
                i += 1
                continue
            raise Ambiguous('minus sign at the start or after a range')
        if i + 2 < n and body[i + 1] == '-':
            lo, hi = c, body[i + 2]
            if hi == '-' or ord(lo) > ord(hi):
                raise Ambiguous('descending or minus-ended range')
            chars.update(chr(x) for x in range(ord(lo), ord(hi) + 1))
            i += 3
        else:
            chars.add(c)
            i += 1
    return neg, frozenset(chars)


def parse(pattern):
    """-> list of parts, each a list of tokens:
    ('lit', c) ('any',) ('star',) ('set', negated, frozenset) ('alt', (s, ...))
    Raises PatternError / Ambiguous."""
    if not isinstance(pattern, str) or not pattern.startswith('/'):
        raise PatternError('pattern does not start with "/"')
    parts = []
    cur = None
    i, n = 0, len(pattern)
    while i < n:
        c = pattern[i]
        i += 1
        if c == '/':
            if cur is not None and not cur:
                raise Ambiguous('empty part')
            cur = []
            parts.append(cur)
        elif c == '[':
            j = i
            while j < n and pattern[j] != ']':
                if pattern[j] == '/':
                    raise Ambiguous('"/" inside brackets')
                j += 1
            if j >= n:
                raise PatternError('unterminated "["')
            neg, chars = _bracket(pattern[i:j])
            cur.append(('set', neg, chars))
            i = j + 1
        elif c == '{':
            j = i
            while j < n and pattern[j] != '}':
                if pattern[j] == '/':
                    raise Ambiguous('"/" inside braces')
                j += 1
            if j >= n:
                raise PatternError('unterminated "{"')
            body = pattern[i:j]
            if set(body) & set('[]{*?'):
                raise Ambiguous('pattern special inside braces')
            alts = body.split(',')
            if any(a == '' for a in alts):
                raise Ambiguous('empty alternative')
            cur.append(('alt', tuple(alts)))
            i = j + 1
        elif c == '*':
            cur.append(('star',))
        elif c == '?':
            cur.append(('any',))
        else:
            cur.append(('lit', c))
    if not parts or not parts[-1]:
        raise Ambiguous('empty part')
    return parts


def _match_part(toks, ti, s, si):
    """Do tokens toks[ti:] match s[si:] completely?  Plain backtracking."""
    nt, ns = len(toks), len(s)
    while ti < nt:
        t = toks[ti]
        k = t[0]
        if k == 'star':
            for cut in range(si, ns + 1):
                if _match_part(toks, ti + 1, s, cut):
                    return True
            return False
        if k == 'alt':
            for a in t[1]:
                if s.startswith(a, si) and \
                        _match_part(toks, ti + 1, s, si + len(a)):
                    return True
            return False
        if si >= ns:
            return False
        ch = s[si]
        if k == 'lit':
            if ch != t[1]:
                return False
        elif k == 'set':
            if (ch in t[2]) == t[1]:
                return False
        # 'any': one character, whatever it is
        ti += 1
        si += 1
    return si == ns


def match_parsed(parts, address):
    aparts = address[1:].split('/')
    if len(aparts) != len(parts):
        return False
    return all(_match_part(p, 0, a, 0) for p, a in zip(parts, aparts))


def match(pattern, address):
    """Does the OSC 1.0 address pattern `pattern` match the whole of the valid
    address `address`?  Raises Ambiguous when the specification does not
    decide; an ill-formed pattern matches nothing."""
    if not valid_address(address):
        raise ValueError(f'not a valid OSC address: {address!r}')
    try:
        parts = parse(pattern)
    except PatternError:
        return False
    return match_parsed(parts, address)


def classify(pattern):
    try:
        parse(pattern)
    except PatternError:
        return 'ill'
    except Ambiguous:
        return 'ambiguous'
    return 'ok'


def selftest():
    m = match
    # literal addresses
    assert m('/a', '/a') and not m('/a', '/ab') and not m('/ab', '/a')
    assert not m('/a', '/a/b') and not m('/a/b', '/a')
    # '?' and '*' stay inside one part, whole part must be consumed
    assert m('/?', '/a') and not m('/?', '/ab') and not m('/a?', '/a')
    assert m('/*', '/a') and m('/*', '/abc') and not m('/*', '/a/b')
    assert m('/a*', '/a') and m('/a*', '/ab') and not m('/a*', '/a/b')
    assert m('/*/b', '/a/b') and not m('/*/b', '/a/c')
    assert m('/*b', '/ab') and m('/*b', '/b') and m('/*b', '/abb')
    assert not m('/*b', '/aba') and m('/*b*', '/aba') and m('/a*a', '/aba')
    assert not m('/a*a', '/a')
    # spec examples style: /oscillator/[1-4]/frequency, /{foo,bar}
    assert m('/oscillator/[1-4]/frequency', '/oscillator/3/frequency')
    assert not m('/oscillator/[1-4]/frequency', '/oscillator/5/frequency')
    assert m('/{foo,bar}', '/foo') and m('/{foo,bar}', '/bar')
    assert not m('/{foo,bar}', '/foobar') and not m('/{foo,bar}', '/fo')
    assert m('/{a,ab}', '/a') and m('/{a,ab}', '/ab')
    assert m('/{a,ab}b', '/ab') and m('/{a,ab}b', '/abb')
    assert not m('/{a,ab}', '/b') and not m('/{a,ab}', '/a/b')
    # brackets
    assert m('/[ab]', '/a') and m('/[ab]', '/b') and not m('/[ab]', '/c')
    assert not m('/[ab]', '/ab')
    assert m('/[!a]', '/b') and not m('/[!a]', '/a')
    assert m('/[a!]', '/!') and m('/[a!]', '/a') and not m('/[a!]', '/b')
    assert m('/[a-]', '/-') and m('/[a-]', '/a') and not m('/[a-]', '/b')
    assert m('/[a-c]', '/b') and not m('/[a-c]', '/d')
    assert m('/[!a-b]', '/c') and not m('/[!a-b]', '/b')
    # literal '-' and '!' outside brackets are ordinary name characters
    assert m('/a-b', '/a-b') and m('/!', '/!') and not m('/a-b', '/a')
    # stray closers / comma are ordinary characters that no address contains
    assert not m('/a]', '/a') and not m('/a}', '/a') and not m('/a,b', '/a')
    assert not m('/a,b', '/b')
    # classes
    assert classify('/a[') == 'ill' and classify('/{a') == 'ill'
    assert classify('/[a') == 'ill' and not m('/a[', '/a')
    for p in ('/', '//a', '/a/', '/a//b', '/[]', '/[!]', '/{}', '/{a,}',
              '/[-a]', '/[b-a]', '/[a-b-a]', '/[a/b]', '/{a/b}', '/[*]',
              '/{a*}', '/{[}', '/[a--]'):
        assert classify(p) == 'ambiguous', p
    for p in ('/a', '/a*', '/[a-b]', '/[a-b-]', '/{a,b}', '/a]', '/,',
              '/[!!]', '/[,]', '/a/b'):
        assert classify(p) == 'ok', p
    assert valid_address('/a/b') and not valid_address('/a/') and \
        not valid_address('//a') and not valid_address('a') and \
        not valid_address('/a*') and not valid_address('/')
    return True


if __name__ == '__main__':
    selftest()
    print('oscpattern selftest ok')
