"""Sparse multivariate polynomials over Q with opaque atoms: the normal form
that quotients signal expressions by exactly the ring identities of + - * and
negation (association/commutation, neutral and absorbing constants, double
negation, distributivity).  Division and every non-ring operator are opaque
applications keyed by the canonical forms of their arguments, with only
p/c = p*(1/c) for a non-zero constant c.  Never imports sc3.

A polynomial is a dict {monomial: Fraction}; a monomial is a sorted tuple of
(atom_name, exponent)."""

from fractions import Fraction

ZERO = {}


def const(c):
    c = Fraction(c)
    return {(): c} if c else {}


def atom(name):
    return {((name, 1),): Fraction(1)}


def add(p, q):
    r = dict(p)
    for m, c in q.items():
        v = r.get(m, 0) + c
        if v:
            r[m] = v
        else:
            r.pop(m, None)
    return r


def neg(p):
    return {m: -c for m, c in p.items()}


def sub(p, q):
    return add(p, neg(q))


def _mulmono(a, b):
    d = dict(a)
    for n, e in b:
        d[n] = d.get(n, 0) + e
    return tuple(sorted(d.items()))


def mul(p, q):
    r = {}
    for m1, c1 in p.items():
        for m2, c2 in q.items():
            m = _mulmono(m1, m2)
            v = r.get(m, 0) + c1 * c2
            if v:
                r[m] = v
            else:
                r.pop(m, None)
    return r


def is_const(p):
    return all(m == () for m in p)


def const_value(p):
    return p.get((), Fraction(0))


def canon(p):
    """Canonical hashable/printable form."""
    return tuple(sorted((m, (c.numerator, c.denominator))
                        for m, c in p.items()))


def show(p):
    if not p:
        return '0'
    parts = []
    for m, c in sorted(p.items()):
        mono = '*'.join(n if e == 1 else f'{n}^{e}' for n, e in m)
        cs = str(c)
        parts.append(cs if not mono else (mono if c == 1 else f'{cs}*{mono}'))
    return ' + '.join(parts)


def app(name, *args):
    """Opaque application node as an atom."""
    return atom(name + '(' + ','.join(show(a) for a in args) + ')')


def div(p, q):
    if is_const(q) and const_value(q) != 0:
        return mul(p, const(1 / const_value(q)))
    return app('div', p, q)


def atoms_of(p):
    """Names of the atoms occurring in p (opaque applications are one atom)."""
    return {n for m in p for n, _ in m}


def selftest():
    a, b, c = atom('a'), atom('b'), atom('c')
    assert add(a, b) == add(b, a)
    assert mul(a, b) == mul(b, a)
    assert add(add(a, b), c) == add(a, add(b, c))
    assert sub(a, neg(b)) == add(a, b)
    assert mul(a, const(1)) == a and mul(a, const(0)) == ZERO
    assert add(a, const(0)) == a and mul(a, const(-1)) == neg(a)
    assert div(a, const(1)) == a and div(a, const(-1)) == neg(a)
    assert sub(a, a) == ZERO
    assert add(mul(a, b), c) == add(c, mul(b, a))
    assert div(a, b) != div(b, a)
    assert canon(sub(a, b)) != canon(sub(b, a))
    assert app('min', a, b) != app('min', b, a)
    assert show(add(mul(a, const(2)), const(Fraction(1, 2)))) == '1/2 + 2*a'
