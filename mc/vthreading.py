"""A deterministic, cooperative stand-in for the `threading` module plus virtual
time (engine E3).  Every VThread is a real OS thread gated by a private
semaphore; exactly one thread holds the baton.  Every synchronisation
operation is a scheduling point at which the explorer's chooser picks the next
thread to run; time advances only when no thread is enabled, to the earliest
pending timed wait plus a lateness picked from a menu.

The module-level API mirrors what sc3 uses from `threading`:
Thread, Lock, RLock, Condition, Event, current_thread, main_thread, get_ident.
"""

import threading as _rt
import _thread
import itertools

T0 = 1024.0                      # physical epoch of virtual time (dyadic)
LATENESS_MENU = [0.0, 2.0 ** -10, 0.75]


class _Baton:
    """Binary semaphore on a raw lock (much cheaper than
    threading.Semaphore): starts empty; release() hands the baton over,
    acquire() parks until it arrives."""
    __slots__ = ('_l',)

    def __init__(self):
        self._l = _thread.allocate_lock()
        self._l.acquire()

    def acquire(self):
        self._l.acquire()

    def release(self):
        self._l.release()


class Abort(BaseException):
    """Raised inside a VThread to unwind it when an execution is torn down."""


class Deadlock(Exception):
    pass


class Livelock(Exception):
    pass


class ReplayDivergence(Exception):
    pass


class Chooser:
    """Replays a prefix of choices, then takes option 0; records every point:
    (kind, n_options, preemptive)."""

    def __init__(self, prefix=()):
        self.prefix = list(prefix)
        self.points = []
        self.choices = []

    def choose(self, kind, n, preemptive):
        i = len(self.choices)
        if i < len(self.prefix):
            c = self.prefix[i]
            if not 0 <= c < n:
                raise ReplayDivergence(
                    f'choice {c} out of range {n} at point {i} ({kind})')
        else:
            c = 0
        self.points.append((kind, n, preemptive))
        self.choices.append(c)
        return c


class Scheduler:
    def __init__(self):
        self.reset(Chooser())

    def reset(self, chooser, step_budget=20000, lateness_menu=None):
        self.threads = []
        self.current = None
        self.now = 0.0
        self.chooser = chooser
        self.steps = 0
        self.step_budget = step_budget
        self.aborting = False
        self.lateness_menu = lateness_menu or LATENESS_MENU
        self.dead = []            # (thread name, exception repr) uncaught
        self.fingerprints = set()
        self.trace_hook = None    # callable(kind) for state fingerprints
        self.late_total = 0.0
        self.deadlock = None
        self.divergence = None
        self.livelock = None
        main = VThread(name='MainThread')
        main.id = 0
        main.state = 'ready'
        main._is_main = True
        main._os_ident = _rt.get_ident()
        main.exact = True
        self.threads.append(main)
        self.current = main
        self.main = main

    # ---- enabledness ------------------------------------------------------
    def _expire(self):
        for t in self.threads:
            if t.state == 'wait' and t.deadline is not None \
                    and t.deadline <= self.now:
                t.cond._waiters.remove(t)
                t.notified = False
                t.state = 'lock'
                t.blocked_on = t.cond._lock
            elif t.state == 'sleep' and t.deadline <= self.now:
                t.state = 'ready'

    def _is_enabled(self, t):
        if t.state == 'ready':
            return True
        if t.state == 'lock':
            return t.blocked_on._free_for(t)
        if t.state == 'join':
            return t.blocked_on.state == 'done'
        if t.state == 'event':
            return t.blocked_on._flag
        return False

    def enabled(self):
        self._expire()
        cur = self.current
        en = [t for t in self.threads if self._is_enabled(t)]
        if not en:
            # 'idle' threads run only when nothing else can
            en = [t for t in self.threads if t.state == 'idle']
        if cur in en:
            en.remove(cur)
            en.insert(0, cur)
        return en

    # ---- the scheduling point ---------------------------------------------
    def point(self, kind):
        me = self.current
        if me._os_ident != _rt.get_ident():
            if self.aborting:
                raise Abort()
            import os
            os.write(2, (f'BATON-ERROR: point({kind}) by OS thread '
                         f'{_rt.current_thread().name}, current is '
                         f'{me.name}\n').encode())
            os._exit(70)
        if self.aborting and not me._is_main:
            raise Abort()
        self.steps += 1
        if self.steps > self.step_budget and not self.aborting:
            msg = f'step budget {self.step_budget} exceeded in {me.name}'
            if me._is_main:
                raise Livelock(msg)
            self.livelock = msg
            self.current = self.main
            self.main.state = 'ready'
            self.main._sem.release()
            me._sem.acquire()
            raise Abort()
        en = self.enabled()
        while not en:
            try:
                self._advance_time()
            except Deadlock as e:
                if me._is_main:
                    raise
                # report through the driver: wake main, park for teardown
                self.deadlock = str(e)
                self.current = self.main
                self.main._sem.release()
                me._sem.acquire()
                raise Abort()
            en = self.enabled()
        self._adv_spin = 0
        if self.trace_hook is not None:
            self.trace_hook(kind)
        if len(en) == 1:
            pick = en[0]
        else:
            pre = bool(en and en[0] is me and self._is_enabled(me))
            pick = en[self._choose('sched', len(en), pre)]
        if pick is not me:
            self._switch(me, pick)

    def _choose(self, kind, n, pre):
        """A recorded choice that does not fit the points of this execution
        means the execution is not a function of program + schedule (e.g. an
        order taken from a set of objects): reported through the driver."""
        try:
            return self.chooser.choose(kind, n, pre)
        except ReplayDivergence as e:
            me = self.current
            if me is None or me._is_main or \
                    me._os_ident != _rt.get_ident():
                raise
            self.divergence = str(e)
            self.current = self.main
            self.main._sem.release()
            me._sem.acquire()
            raise Abort()

    def _switch(self, me, pick):
        self.current = pick
        pick._sem.release()
        if me.state == 'done':
            return
        me._sem.acquire()
        if me._is_main:
            if self.divergence:
                raise ReplayDivergence(self.divergence)
            if self.deadlock:
                raise Deadlock(self.deadlock)
            if self.livelock:
                raise Livelock(self.livelock)
        elif self.aborting:
            raise Abort()

    def _advance_time(self):
        timed = [t for t in self.threads
                 if t.state in ('wait', 'sleep') and t.deadline is not None]
        if not timed:
            raise Deadlock(
                'no enabled thread and no timer: ' + ', '.join(
                    f'{t.name}:{t.state}' for t in self.threads
                    if t.state != 'done'))
        d = min(t.deadline for t in timed)
        # a deadline that can never be reached (NaN), or time advancing again
        # and again without enabling anybody, is a dead end, not a busy loop
        self._adv_spin = getattr(self, '_adv_spin', 0) + 1
        if d != d or self._adv_spin > 1000:
            raise Deadlock(
                f'timers never enable a thread (next deadline {d!r}): ' +
                ', '.join(f'{t.name}:{t.state}:{t.deadline!r}'
                          for t in timed))
        first = [t for t in timed if t.deadline == d]
        late = 0.0
        if not all(t.exact for t in first) and len(self.lateness_menu) > 1:
            late = self.lateness_menu[self._choose(
                'late', len(self.lateness_menu), False)]
        self.late_total += late
        self.now = max(self.now, d + late)

    # ---- thread life cycle -------------------------------------------------
    def thread_exit(self, t):
        t.state = 'done'
        if self.aborting:
            return
        en = self.enabled()
        while not en:
            try:
                self._advance_time()
            except Deadlock:
                # nobody can ever run again: give the baton back to main so
                # that the driver can report
                self.deadlock = 'no enabled thread and no timer after ' \
                    f'{t.name} exited'
                self.current = self.main
                self.main._sem.release()
                return
            en = self.enabled()
        if len(en) == 1:
            pick = en[0]
        else:
            try:
                pick = en[self.chooser.choose('sched', len(en), False)]
            except ReplayDivergence as e:
                self.divergence = str(e)
                pick = self.main
        self.current = pick
        pick._sem.release()

    def teardown(self):
        """Called by the driver (main VThread) at the end of an execution:
        unwind every thread that is still parked."""
        self.aborting = True
        for t in self.threads:
            if t._is_main or t._os is None:
                continue
            if t.state != 'done':
                t._sem.release()
            t._os.join(5)
            if t._os.is_alive():
                raise RuntimeError(f'thread {t.name} did not unwind')

    def idle(self):
        """Let every other thread run until all of them are blocked (no
        time passes): the caller is enabled only when nobody else is."""
        me = self.current
        me.state = 'idle'
        try:
            self.point('idle')
        finally:
            me.state = 'ready'

    def sleep(self, dt, exact=False):
        me = self.current
        if dt <= 0:
            self.point('sleep0')
            return
        me.deadline = self.now + dt
        me.state = 'sleep'
        old = me.exact
        me.exact = exact or me._is_main
        try:
            self.point('sleep')
        finally:
            me.exact = old
        me.state = 'ready'


_ids = itertools.count(1)
SCHED = None


def sched():
    return SCHED


class VThread:
    def __init__(self, group=None, target=None, name=None, args=(),
                 kwargs=None, *, daemon=None):
        self._target = target
        self._args = args
        self._kwargs = kwargs or {}
        self.name = name or f'VThread-{next(_ids)}'
        self.daemon = bool(daemon)
        self.id = None
        self.state = 'new'
        self.blocked_on = None
        self.cond = None
        self.deadline = None
        self.notified = False
        self.exact = False
        self._sem = _Baton()
        self._os = None
        self._is_main = False
        self._os_ident = None
        self.ident = None

    def start(self):
        S = SCHED
        if self.state != 'new':
            raise RuntimeError('threads can only be started once')
        self.id = len(S.threads)
        self.ident = self.id
        S.threads.append(self)
        self.state = 'ready'
        self._os = _rt.Thread(target=self._bootstrap, daemon=True,
                              name='v:' + self.name)
        self._os.start()
        S.point('start')

    def _bootstrap(self):
        S = SCHED
        self._os_ident = _rt.get_ident()
        self._sem.acquire()
        try:
            if not S.aborting:
                self._target(*self._args, **self._kwargs)
        except Abort:
            pass
        except BaseException as e:  # uncaught: the thread dies, as in CPython
            S.dead.append((self.name, repr(e)))
        finally:
            S.thread_exit(self)

    def join(self, timeout=None):
        S = SCHED
        me = S.current
        if self is me:
            raise RuntimeError('cannot join current thread')
        if self.state == 'new':
            raise RuntimeError('cannot join thread before it is started')
        if self.state != 'done':
            me.state = 'join'
            me.blocked_on = self
            S.point('join')
            me.state = 'ready'
        else:
            S.point('join-done')

    def is_alive(self):
        return self.state not in ('new', 'done')

    def __repr__(self):
        return f'<VThread {self.name} {self.state}>'


Thread = VThread


def current_thread():
    return SCHED.current


def main_thread():
    return SCHED.main


def get_ident():
    return SCHED.current.id


class VLock:
    reentrant = False

    def __init__(self):
        self._owner = None
        self._count = 0

    def _free_for(self, t):
        return self._owner is None or (self.reentrant and self._owner is t)

    def acquire(self, blocking=True, timeout=-1):
        # No choice point when the lock is free: being preempted here is
        # equivalent to not having been scheduled at the point that made this
        # thread run (its previous release / start / wake-up), because only
        # thread-local code lies in between.
        S = SCHED
        me = S.current
        if me._os_ident != _rt.get_ident() or \
                (S.aborting and not me._is_main):
            raise Abort()
        while not self._free_for(me):
            if not blocking:
                return False
            if self._owner is me:
                raise Deadlock(f'{me.name} re-acquires a non-reentrant lock')
            me.state = 'lock'
            me.blocked_on = self
            S.point('blocked')
            me.state = 'ready'
        self._owner = me
        self._count += 1
        return True

    def release(self):
        S = SCHED
        me = S.current
        if S.aborting and not me._is_main:
            self._owner = None    # unwinding: best effort, never raise
            self._count = 0
            return
        if self._owner is None or (self.reentrant and self._owner is not me):
            raise RuntimeError('release unlocked/unowned lock')
        self._count -= 1
        if self._count == 0:
            self._owner = None
        if S.aborting:
            return
        S.point('release')

    def locked(self):
        return self._owner is not None

    def _is_owned(self):
        return self._owner is SCHED.current

    def __enter__(self):
        self.acquire()
        return True

    def __exit__(self, *a):
        self.release()

    # Condition support
    def _release_save(self):
        st = (self._owner, self._count)
        self._owner = None
        self._count = 0
        return st

    def _acquire_restore(self, st):
        self._owner, self._count = st


class VRLock(VLock):
    reentrant = True


def Lock():
    return VLock()


def RLock():
    return VRLock()


class VCondition:
    def __init__(self, lock=None):
        self._lock = lock if lock is not None else VRLock()
        self._waiters = []
        self.acquire = self._lock.acquire
        self.release = self._lock.release

    def __enter__(self):
        return self._lock.__enter__()

    def __exit__(self, *a):
        return self._lock.__exit__(*a)

    def _is_owned(self):
        return self._lock._is_owned()

    def wait(self, timeout=None):
        S = SCHED
        me = S.current
        if not self._is_owned():
            raise RuntimeError('cannot wait on un-acquired lock')
        st = self._lock._release_save()
        me.state = 'wait'
        me.cond = self
        me.notified = False
        me.deadline = None if timeout is None else S.now + max(timeout, 0.0)
        self._waiters.append(me)
        try:
            S.point('wait')
        except BaseException:
            if me in self._waiters:
                self._waiters.remove(me)
            raise
        me.state = 'ready'
        self._lock._acquire_restore(st)
        return me.notified

    def wait_for(self, predicate, timeout=None):
        r = predicate()
        while not r:
            self.wait(timeout)
            r = predicate()
        return r

    def notify(self, n=1):
        S = SCHED
        if not self._is_owned():
            raise RuntimeError('cannot notify on un-acquired lock')
        for t in self._waiters[:n]:
            self._waiters.remove(t)
            t.notified = True
            t.state = 'lock'
            t.blocked_on = self._lock
        # not a choice point: the woken threads cannot run before the
        # notifier releases the lock, and that release is a point.

    def notify_all(self):
        self.notify(len(self._waiters))


Condition = VCondition


class VEvent:
    def __init__(self):
        self._flag = False

    def is_set(self):
        return self._flag

    def set(self):
        self._flag = True
        SCHED.point('event-set')

    def clear(self):
        self._flag = False

    def wait(self, timeout=None):
        S = SCHED
        me = S.current
        if not self._flag:
            me.state = 'event'
            me.blocked_on = self
            S.point('event-wait')
            me.state = 'ready'
        return self._flag


Event = VEvent


class VTime:
    """Stand-in for the `time` module inside sc3.base.main."""

    @staticmethod
    def time():
        return T0 + SCHED.now

    @staticmethod
    def sleep(dt):
        SCHED.sleep(dt)

    @staticmethod
    def monotonic():
        return SCHED.now

    @staticmethod
    def strftime(*a):
        return 'virtual'


SCHED = Scheduler()
